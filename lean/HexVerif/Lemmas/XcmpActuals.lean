import HexVerif.Lemmas.XcmpStmtMain
/-!
  Loading of call-free actuals into the outgoing area (`loadActuals`), used by system calls
  (stage 3) and calls (stage 4).
-/
namespace Hex.C01s
open Hex Hex.X Hex.Xcmp Hex.IAm Hex.Asm

theorem evalArgs_nil (fuel : Nat) (xc : X.Ctx) (st : X.St) : X.evalArgs (fuel + 1) xc [] st = .ok [] st := by
  unfold X.evalArgs; rfl

theorem evalArgs_cons_inv (fuel : Nat) (xc : X.Ctx) (e : X.Expr) (es : List X.Expr) (st s : X.St) (vs : List Val)
    (h : X.evalArgs (fuel + 1) xc (e :: es) st = .ok vs s) :
    ∃ v s1 vs', X.eval fuel xc e st = .ok v s1 ∧ X.evalArgs fuel xc es s1 = .ok vs' s ∧ vs = v :: vs' := by
  unfold X.evalArgs at h
  obtain ⟨v, s1, h1, h2⟩ := bind_ok_inv _ _ _ _ h
  obtain ⟨vs', s2, h3, h4⟩ := bind_ok_inv _ _ _ _ h2
  simp only [Res.ok.injEq] at h4
  rw [← h4.2]
  exact ⟨v, s1, vs', h1, h3, h4.1.symm⟩

theorem evalArgs_zero (xc : X.Ctx) (es : List X.Expr) (st : X.St) : X.evalArgs 0 xc es st = .undef "out of fuel" := by
  unfold X.evalArgs; rfl

theorem evalArgs_pure (xc : X.Ctx) : ∀ (es : List X.Expr) (fuel : Nat) (st s : X.St) (vs : List Val),
    (∀ e ∈ es, pureE e = true) → X.evalArgs fuel xc es st = .ok vs s → SameVars st s := by
  intro es
  induction es with
  | nil =>
    intro fuel st s vs _ h
    cases fuel with
    | zero => rw [evalArgs_zero] at h; simp at h
    | succ f => rw [evalArgs_nil] at h; simp only [Res.ok.injEq] at h; rw [← h.2]; exact SameVars.refl _
  | cons e rest ih =>
    intro fuel st s vs hp h
    cases fuel with
    | zero => rw [evalArgs_zero] at h; simp at h
    | succ f =>
      obtain ⟨v, s1, vs', h1, h2, _⟩ := evalArgs_cons_inv _ _ _ _ _ _ _ h
      exact (eval_pure xc _ _ _ _ _ (hp e (by simp)) h1).trans
        (ih f s1 s vs' (fun x hx => hp x (by simp [hx])) h2)

/-- The annotated, optimised actuals. -/
def optArgsOf (ρ : String → Option Word) (es : List X.Expr) : List AExpr :=
  es.map fun e => optExpr (annotate ρ e)

/-- Address `sp + q` as a frame slot. -/
theorem slot_of_out (K : PCtx) (q : Nat) (h : q < K.S) : K.slot (K.S - 1 - q) = K.sp + q := by
  unfold PCtx.slot; omega

/-- **`loadActuals` on call-free actuals**: every value ends up in its parameter slot; the
    representation is preserved; the slots below the first parameter index are untouched. -/
theorem exec_loadActualsV (K : PCtx) (wf : K.WF) : ∀ (es : List X.Expr) (fuel : Nat) (st s : X.St) (vs : List Val),
    (∀ e ∈ es, pureE e = true) → X.evalArgs fuel K.xc es st = .ok vs s →
    ∀ (p saved : Nat) (gs : GS) (code : Code) (gs' : GS) (i : Nat) (a b : Word) (mem : Mem) (io : Isa.IOSt), st.io = io →
      loadActuals K.ctx (optArgsOf K.ρ es) p saved gs = .ok (code, gs') → At K.env.ds i (K.low code) → Rep K st mem →
      gs'.size + (p + es.length) ≤ K.S → K.nlocals ≤ gs.offset → gs.offset ≤ gs.size → ConstsIn K gs' →
      ∃ a' b' mem', Steps K.env (cfg i a b mem) io (cfg (i + (K.low code).length) a' b' mem') io ∧ Rep K st mem' ∧
        (∀ k (hk : k < vs.length), K.VRep vs[k] (mem'.read (K.sp + p + k))) ∧
        (∀ q, q < p → mem'.read (K.sp + q) = mem.read (K.sp + q)) ∧
        FrmC K gs.offset K.S mem mem' := by
  intro es
  induction es with
  | nil =>
    intro fuel st s vs _ hev p saved gs code gs' i a b mem io hio hg hat hr hb hnl hos hci
    simp only [optArgsOf, List.map_nil] at hg
    rw [loadActuals_nil] at hg
    simp only [Except.ok.injEq, Prod.mk.injEq] at hg
    rw [← hg.1]
    have hws : vs = [] := by
      cases fuel with
      | zero => rw [evalArgs_zero] at hev; simp at hev
      | succ f => rw [evalArgs_nil] at hev; simp only [Res.ok.injEq] at hev; exact hev.1.symm
    subst hws
    exact ⟨a, b, mem, Steps.refl _ _, hr, fun k hk => by simp at hk, fun _ _ => rfl,
      FrmC.refl _ _ _ _⟩
  | cons e rest ih =>
    intro fuel st s vs hp hev p saved gs code gs' i a b mem io hio hg hat hr hb hnl hos hci
    subst hio
    cases fuel with
    | zero => rw [evalArgs_zero] at hev; simp at hev
    | succ f =>
      obtain ⟨v0, s1, vs', h1, h2, hvs⟩ := evalArgs_cons_inv _ _ _ _ _ _ _ hev
      subst hvs
      have hpe := hp e (by simp)
      have hprest : ∀ x ∈ rest, pureE x = true := fun x hx => hp x (by simp [hx])
      simp only [optArgsOf, List.map_cons] at hg
      rcases loadActuals_cons_inv _ _ _ _ _ _ _ _ hg with ⟨hcc, _⟩ | ⟨_, c, gs1, cs, hg1, hg2, hcode⟩
      · rw [pure_noCall K.ρ e hpe] at hcc; simp at hcc
      · subst hcode
        have e1 := genExpr_eff _ _ _ _ _ _ hg1
        have e2 := loadActuals_eff _ _ _ _ _ _ _ hg2
        simp only [List.length_cons] at hb
        simp only [low_append, List.append_assoc] at hat ⊢
        have hA := expr_pure_val K wf f e st v0 s1 hpe h1
        obtain ⟨v, b1, mem1, hPv, st1, rep1, frm1⟩ := hA gs c gs1 i a b mem hg1 hat.left hr
          (by have := e2.2.1; omega) hnl (hci.of_eff e2)
        rw [hiB_true] at frm1
        -- store into the parameter slot
        have hmid : K.low [iLDBM SP_OFFSET, iSTAI (p : Int)] = [.imm 0x1 1, .imm 0x8 (p : Int)] := rfl
        rw [hmid] at hat ⊢
        have hld := hat.right.left.get 0 _ rfl
        have hst := hat.right.left.get 1 _ rfl
        simp only [Nat.add_zero] at hld hst
        have sA := Step.ldbm (env := K.env) (cfg (i + (K.low c).length) v b1 mem1) st.io 1 _ hld (ld_one mem1)
        have hpS : p < K.S := by omega
        obtain ⟨hsl1, hsl2⟩ := wf.slot_ok (K.S - 1 - p) (by omega)
        rw [slot_of_out K p hpS] at hsl1 hsl2
        have hadr : mem1.read 1 + IAm.W (p : Int) = BitVec.ofNat 32 (K.sp + p) := by
          rw [rep1.sp]; exact ofNat_add_W K.sp p
        have hsto : IAm.store K.env mem1 (mem1.read 1 + IAm.W (p : Int)) v = some (mem1.write (K.sp + p) v) := by
          rw [hadr]; exact store_ofNat _ _ _ _ hsl1 hsl2
        have hne1 : (mem1.read 1 + IAm.W (p : Int)).toNat ≠ 1 := by
          rw [hadr]; exact ofNat_toNat_ne_one _ (by have := wf.sp_ge; omega) hsl1
        have sB := Step.stai (env := K.env) (cfg (i + (K.low c).length + 1) v (mem1.read 1) mem1) st.io _ _ hst hsto hne1
        have frm2 : Frm K (K.S - 1 - p) (K.S - p) mem1 (mem1.write (K.sp + p) v) := by
          intro ad had
          rw [Mem.read_write_other]
          intro e
          apply had (K.S - 1 - p) (Nat.le_refl _) (by omega)
          rw [slot_of_out K p hpS]; exact e.symm
        have rep2 := rep1.frame wf frm2 (by have := e1.2.1; have := e2.2.1; omega) (by omega)
        have hs1 := eval_pure K.xc _ _ _ _ _ hpe h1
        obtain ⟨a', b', mem', st3, rep3, hvals, hkeep, frm3⟩ := ih f s1 s vs' hprest h2 (p + 1) saved gs1 cs gs'
          (i + (K.low c).length + 1 + 1) v (mem1.read 1) (mem1.write (K.sp + p) v) st.io hs1.2.2.2.1 hg2
          (by simpa [Nat.add_assoc] using hat.right.right) (rep2.same hs1)
          (by omega) (by have := e1.1; omega) (by have := e1.1; have := e1.2.1; omega) hci
        refine ⟨a', b', mem', ?_, rep3.same hs1.symm, ?_, ?_, ?_⟩
        · have : i + ((K.low c).length + ([Dir.imm 1 1, Dir.imm 8 (p : Int)].length + (K.low cs).length))
              = i + (K.low c).length + 1 + 1 + (K.low cs).length := by
            simp only [List.length_cons, List.length_nil]; omega
          simp only [List.length_append]
          rw [this]
          exact st1.trans (Steps.step _ _ _ _ _ _ sA (Steps.step _ _ _ _ _ _ sB st3))
        · intro k hk
          cases k with
          | zero =>
            simp only [Nat.add_zero, List.getElem_cons_zero]
            rw [hkeep p (by omega), Mem.read_write_same _ _ _ hsl1]
            exact hPv
          | succ k' =>
            simp only [List.length_cons] at hk
            have := hvals k' (by omega)
            simp only [List.getElem_cons_succ]
            have e : K.sp + p + (k' + 1) = K.sp + (p + 1) + k' := by omega
            rw [e]
            exact this
        · intro q hq
          rw [hkeep q (by omega), Mem.read_write_other _ _ _ _ (by omega)]
          apply frm1 _ (by omega) (wf.not_inArr _ (by omega))
          intro k h1' h2' e
          have hq' : q < K.S := by omega
          rw [← slot_of_out K q hq'] at e
          have := slot_inj K (K.S - 1 - q) k (by omega) (by have := e2.2.1; omega) e
          have := e2.2.1
          omega
        · intro ad hsp hna had
          rw [frm3 ad hsp hna (fun k h1' h2' => had k (by have := e1.1; omega) h2')]
          rw [Mem.read_write_other _ _ _ _ (fun e => had (K.S - 1 - p)
            (by have := e1.2.1; have := e2.2.1; omega) (by omega) (by rw [slot_of_out K p hpS]; exact e.symm))]
          exact frm1 ad hsp hna (fun k h1' h2' => had k h1' (by have := e2.2.1; omega))

/-- The same for integer actuals. -/
theorem exec_loadActuals (K : PCtx) (wf : K.WF) (es : List X.Expr) (fuel : Nat) (st s : X.St) (ws : List Word)
    (hp : ∀ e ∈ es, pureE e = true) (hev : X.evalArgs fuel K.xc es st = .ok (ws.map Val.int) s)
    (p saved : Nat) (gs : GS) (code : Code) (gs' : GS) (i : Nat) (a b : Word) (mem : Mem) (io : Isa.IOSt) (hio : st.io = io)
    (hg : loadActuals K.ctx (optArgsOf K.ρ es) p saved gs = .ok (code, gs')) (hat : At K.env.ds i (K.low code)) (hr : Rep K st mem)
    (hb : gs'.size + (p + es.length) ≤ K.S) (hnl : K.nlocals ≤ gs.offset) (hos : gs.offset ≤ gs.size) (hci : ConstsIn K gs') :
    ∃ a' b' mem', Steps K.env (cfg i a b mem) io (cfg (i + (K.low code).length) a' b' mem') io ∧ Rep K st mem' ∧
      (∀ k (hk : k < ws.length), mem'.read (K.sp + p + k) = ws[k]) ∧
      (∀ q, q < p → mem'.read (K.sp + q) = mem.read (K.sp + q)) ∧
      FrmC K gs.offset K.S mem mem' := by
  obtain ⟨a', b', mem', h1, h2, h3, h5, h6⟩ := exec_loadActualsV K wf es fuel st s _ hp hev p saved gs code gs' i a b mem io hio
    hg hat hr hb hnl hos hci
  refine ⟨a', b', mem', h1, h2, fun k hk => ?_, h5, h6⟩
  have := h3 k (by simpa using hk)
  simp only [List.getElem_map] at this
  exact this

/-! ### System-call statements -/

theorem genCallActuals_noCall (ctx : Xcmp.Ctx) : ∀ (args : List AExpr) (gs : GS),
    (∀ x ∈ args, containsCall x = false) → genCallActuals ctx args gs = .ok ([], gs) ∧ countCalls args = 0 := by
  intro args
  induction args with
  | nil => intro gs _; exact ⟨genCallActuals_nil _ _, rfl⟩
  | cons x rest ih =>
    intro gs h
    have hx := h x (by simp)
    obtain ⟨h1, h2⟩ := ih gs (fun y hy => h y (by simp [hy]))
    refine ⟨?_, by simp [countCalls, hx, h2]⟩
    unfold genCallActuals
    simp only [hx, Bool.false_eq_true, if_false]
    exact h1

theorem optArgsOf_noCall (ρ : String → Option Word) (es : List X.Expr) (hp : ∀ e ∈ es, pureE e = true) :
    ∀ x ∈ optArgsOf ρ es, containsCall x = false := by
  intro x hx
  simp only [optArgsOf, List.mem_map] at hx
  obtain ⟨e, he, rfl⟩ := hx
  exact pure_noCall ρ e (hp e he)

theorem Rep.setIo {K : PCtx} {σ : X.St} {mem : Mem} (h : Rep K σ mem) (io : Isa.IOSt) : Rep K { σ with io := io } mem :=
  ⟨h.sp, h.vals, fun n w hn hr => h.vars n w hn hr, h.consts, h.locs, h.above, h.gvis, h.depth,
   fun n r hr => h.aptr n r hr, fun id cells hc => h.acells id cells hc, h.strs⟩

theorem sysId_small (id : Nat) (h : id < 3) : sysIdOfNat id = (id : Int) := by
  unfold sysIdOfNat
  have : id = 0 ∨ id = 1 ∨ id = 2 := by omega
  rcases this with rfl | rfl | rfl <;> decide

theorem add_two (K : PCtx) : (BitVec.ofNat 32 K.sp + 2 : Word) = BitVec.ofNat 32 (K.sp + 2) := by
  have := ofNat_add_W K.sp 2
  rw [← this]; rfl
theorem add_three (K : PCtx) : (BitVec.ofNat 32 K.sp + 3 : Word) = BitVec.ofNat 32 (K.sp + 3) := by
  have := ofNat_add_W K.sp 3
  rw [← this]; rfl
theorem add_one (K : PCtx) : (BitVec.ofNat 32 K.sp + 1 : Word) = BitVec.ofNat 32 (K.sp + 1) := by
  have := ofNat_add_W K.sp 1
  rw [← this]; rfl

theorem evalArgs_length (xc : X.Ctx) : ∀ (es : List X.Expr) (fuel : Nat) (st s : X.St) (vs : List Val),
    X.evalArgs fuel xc es st = .ok vs s → vs.length = es.length := by
  intro es
  induction es with
  | nil =>
    intro fuel st s vs h
    cases fuel with
    | zero => rw [evalArgs_zero] at h; simp at h
    | succ f => rw [evalArgs_nil] at h; simp only [Res.ok.injEq] at h; rw [← h.1]; rfl
  | cons e rest ih =>
    intro fuel st s vs h
    cases fuel with
    | zero => rw [evalArgs_zero] at h; simp at h
    | succ f =>
      obtain ⟨v, s1, vs', _, h2, hv⟩ := evalArgs_cons_inv _ _ _ _ _ _ _ h
      rw [hv]; simp [ih f s1 s vs' h2]

theorem W_two : IAm.W ((2 : Nat) : Int) = 2 := by decide
theorem W_oneN : IAm.W ((1 : Nat) : Int) = 1 := by decide
theorem W_zeroN : IAm.W ((0 : Nat) : Int) = 0 := by decide

/-- **The tail of a system call** (`LDAC id; SVC; LDAM sp; LDAI 1`), with the actuals in the
    outgoing area. -/
theorem exec_systail (K : PCtx) (wf : K.WF) (id : Nat) (hid : id < 3) (ws : List Word) (st s : X.St) (lc off j : Nat)
    (a1 b1 : Word) (mem1 : Mem) (io : Isa.IOSt) (hio : s.io = io)
    (hat : At K.env.ds j (K.low (callTail (.sys (id : Int)) lc))) (rep1 : Rep K st mem1)
    (hvals : ∀ k (hk : k < ws.length), mem1.read (K.sp + 2 + k) = ws[k])
    (hnl : K.nlocals ≤ off) (hoS : off + (ws.length + 2) ≤ K.S) :
    match X.doSyscall (BitVec.ofNat 32 id) (ws.map Val.int) s with
    | .exit cd _ => ∃ c, Steps K.env (cfg j a1 b1 mem1) io c io ∧ Exit K.env c io cd
    | .ok r s' =>
      ∃ a' b' mem', Steps K.env (cfg j a1 b1 mem1) io (cfg (j + (K.low (callTail (.sys (id : Int)) lc)).length) a' b' mem') s'.io ∧
        Rep K st mem' ∧ (∀ v, r = some v → a' = v) ∧ FrmC K off K.S mem1 mem'
    | .undef _ => True := by
  -- without actuals every system call is undefined
  by_cases hws : ws = []
  · subst hws
    have hid3 : id = 0 ∨ id = 1 ∨ id = 2 := by omega
    rcases hid3 with rfl | rfl | rfl <;> (unfold X.doSyscall; simp)
  have hwpos : 0 < ws.length := by
    cases ws with
    | nil => exact absurd rfl hws
    | cons _ _ => simp
  have hS3 : 3 ≤ K.S := by omega
  have htail : K.low (callTail (.sys (id : Int)) lc) = [.imm 0x3 (id : Int), .opr 3, .imm 0x0 1, .imm 0x6 1] := rfl
  rw [htail] at hat ⊢
  have hat2 := hat
  have t0 := hat2.get 0 _ rfl
  have t1 := hat2.get 1 _ rfl
  have t2 := hat2.get 2 _ rfl
  have t3 := hat2.get 3 _ rfl
  simp only [Nat.add_zero] at t0
  obtain ⟨hs2a, _⟩ := wf.slot_ok (K.S - 1 - 2) (by omega)
  rw [slot_of_out K 2 (by omega)] at hs2a
  obtain ⟨hs1a, hs1b⟩ := wf.slot_ok (K.S - 1 - 1) (by omega)
  rw [slot_of_out K 1 (by omega)] at hs1a hs1b
  have sLdac := Step.ldac (env := K.env) (cfg (j) a1 b1 mem1) io (id : Int) t0
  simp only [List.length_append, List.length_cons, List.length_nil]
  have hid3 : id = 0 ∨ id = 1 ∨ id = 2 := by omega
  rcases hid3 with rfl | rfl | rfl
  · -- exit
    unfold X.doSyscall
    simp only [BitVec.ofNat_eq_ofNat, if_true]
    cases ws with
    | nil => trivial
    | cons v rest =>
      cases rest with
      | cons _ _ => trivial
      | nil =>
        simp only [List.map_cons, List.map_nil]
        have hv := hvals 0 (by simp)
        simp only [Nat.add_zero, List.getElem_cons_zero] at hv
        refine ⟨cfg (j + 1) (IAm.W ((0 : Nat) : Int)) b1 mem1, Steps.one sLdac, ?_⟩
        apply Exit.svcExit
        · exact t1
        · exact W_zeroN
        · show Isa.ld mem1 (mem1.read 1 + 2) = some v
          rw [rep1.sp, add_two, ld_ofNat _ _ hs2a, hv]
  · -- put
    unfold X.doSyscall
    simp only [BitVec.ofNat_eq_ofNat]
    rw [if_neg (by decide), if_pos (by decide)]
    cases ws with
    | nil => trivial
    | cons v1 rest =>
      cases rest with
      | nil => trivial
      | cons v2 rest2 =>
        cases rest2 with
        | cons _ _ => trivial
        | nil =>
          simp only [List.map_cons, List.map_nil]
          have hv1 := hvals 0 (by simp)
          have hv2 := hvals 1 (by simp)
          simp only [Nat.add_zero, List.getElem_cons_zero, List.getElem_cons_succ] at hv1 hv2
          simp only [List.length_cons, List.length_nil] at hoS
          obtain ⟨hs3a, _⟩ := wf.slot_ok (K.S - 1 - 3) (by omega)
          rw [slot_of_out K 3 (by omega)] at hs3a
          have l1 : Isa.ld mem1 (mem1.read 1 + 2) = some v1 := by
            rw [rep1.sp, add_two, ld_ofNat _ _ hs2a, hv1]
          have l2 : Isa.ld mem1 (mem1.read 1 + 3) = some v2 := by
            rw [rep1.sp, add_three, ld_ofNat _ _ hs3a]
            have : K.sp + 2 + 1 = K.sp + 3 := by omega
            rw [← this, hv2]
          have sSvc := Step.svcPut (env := K.env) (cfg (j + 1) (IAm.W ((1 : Nat) : Int)) b1 mem1) io v1 v2
            t1 W_oneN l1 l2
          have sLdam := Step.ldam (env := K.env) (cfg (j + 1 + 1) (IAm.W ((1 : Nat) : Int)) b1 mem1)
            (Isa.simout io v1 v2) 1 _ t2 (ld_one mem1)
          have l3 : Isa.ld mem1 (mem1.read 1 + IAm.W 1) = some (mem1.read (K.sp + 1)) := by
            rw [rep1.sp, W_one, add_one, ld_ofNat _ _ hs1a]
          have sLdai := Step.ldai (env := K.env) (cfg (j + 1 + 1 + 1) (mem1.read 1) b1 mem1)
            (Isa.simout io v1 v2) 1 _ t3 l3
          refine ⟨mem1.read (K.sp + 1), b1, mem1, ?_, rep1, fun v hv => by simp at hv, FrmC.refl _ _ _ _⟩
          rw [hio]
          exact Steps.step _ _ _ _ _ _ sLdac (Steps.step _ _ _ _ _ _ sSvc
            (Steps.step _ _ _ _ _ _ sLdam (Steps.one sLdai)))
  · -- get
    unfold X.doSyscall
    simp only [BitVec.ofNat_eq_ofNat]
    rw [if_neg (by decide), if_neg (by decide), if_pos (by decide)]
    cases ws with
    | nil => trivial
    | cons sv rest =>
      cases rest with
      | cons _ _ => trivial
      | nil =>
        simp only [List.map_cons, List.map_nil]
        have hv := hvals 0 (by simp)
        simp only [Nat.add_zero, List.getElem_cons_zero] at hv
        have l1 : Isa.ld mem1 (mem1.read 1 + 2) = some sv := by
          rw [rep1.sp, add_two, ld_ofNat _ _ hs2a, hv]
        have hsto : IAm.store K.env mem1 (mem1.read 1 + 1) (Isa.simin io sv).1
            = some (mem1.write (K.sp + 1) (Isa.simin io sv).1) := by
          rw [rep1.sp, add_one]; exact store_ofNat _ _ _ _ hs1a hs1b
        have sSvc := Step.svcGet (env := K.env) (cfg (j + 1) (IAm.W ((2 : Nat) : Int)) b1 mem1) io sv _
          t1 W_two l1 hsto
        have hsp2 : (mem1.write (K.sp + 1) (Isa.simin io sv).1).read 1 = BitVec.ofNat 32 K.sp := by
          rw [Mem.read_write_other _ _ _ _ (by have := wf.sp_ge; omega)]; exact rep1.sp
        have sLdam := Step.ldam (env := K.env)
          (cfg (j + 1 + 1) (IAm.W ((2 : Nat) : Int)) b1 (mem1.write (K.sp + 1) (Isa.simin io sv).1))
          (Isa.simin io sv).2 1 _ t2 (ld_one _)
        have l3 : Isa.ld (mem1.write (K.sp + 1) (Isa.simin io sv).1)
            ((mem1.write (K.sp + 1) (Isa.simin io sv).1).read 1 + IAm.W 1) = some (Isa.simin io sv).1 := by
          rw [hsp2, W_one, add_one, ld_ofNat _ _ hs1a, Mem.read_write_same _ _ _ hs1a]
        have sLdai := Step.ldai (env := K.env)
          (cfg (j + 1 + 1 + 1) ((mem1.write (K.sp + 1) (Isa.simin io sv).1).read 1) b1
            (mem1.write (K.sp + 1) (Isa.simin io sv).1))
          (Isa.simin io sv).2 1 _ t3 l3
        have frm2 : Frm K (K.S - 1 - 1) (K.S - 1) mem1 (mem1.write (K.sp + 1) (Isa.simin io sv).1) := by
          intro ad had
          rw [Mem.read_write_other]
          intro e
          apply had (K.S - 1 - 1) (Nat.le_refl _) (by omega)
          rw [slot_of_out K 1 (by omega)]; exact e.symm
        have hnS : K.nlocals ≤ K.S - 1 - 1 := by omega
        refine ⟨(Isa.simin io sv).1, b1, mem1.write (K.sp + 1) (Isa.simin io sv).1, ?_,
          rep1.frame wf frm2 hnS (by omega), ?_, ?_⟩
        · rw [hio]
          exact Steps.step _ _ _ _ _ _ sLdac (Steps.step _ _ _ _ _ _ sSvc
            (Steps.step _ _ _ _ _ _ sLdam (Steps.one sLdai)))
        · intro v hv
          simp only [Option.some.injEq] at hv
          rw [← hv, hio]
        · exact (frm2.mono (by omega) (by omega)).toC


/-- A system call with call-free actuals, as a statement or in an expression: the code of
    `genSysCall` from a state that represents `st`. -/
theorem exec_syscall (K : PCtx) (wf : K.WF) (id : Nat) (hid : id < 3) (es : List X.Expr) (fuel : Nat) (st s : X.St)
    (ws : List Word) (hp : ∀ e ∈ es, pureE e = true) (hev : X.evalArgs fuel K.xc es st = .ok (ws.map Val.int) s)
    (gs : GS) (code : Code) (gs' : GS) (i : Nat) (a b : Word) (mem : Mem) (io : Isa.IOSt) (hio : s.io = io)
    (hg : callSeq (.sys (id : Int)) (optArgsOf K.ρ es).length (countCalls (optArgsOf K.ρ es))
            (genCallActuals K.ctx (optArgsOf K.ρ es)) (fun p sv => loadActuals K.ctx (optArgsOf K.ρ es) p sv) gs
          = .ok (code, gs'))
    (hat : At K.env.ds i (K.low code)) (hr : Rep K st mem) (hsz : gs'.size ≤ K.S) (hnl : K.nlocals ≤ gs.offset) (hci : ConstsIn K gs') :
    match X.doSyscall (BitVec.ofNat 32 id) (ws.map Val.int) s with
    | .exit cd _ => ∃ c, Steps K.env (cfg i a b mem) io c io ∧ Exit K.env c io cd
    | .ok r s' =>
      ∃ a' b' mem', Steps K.env (cfg i a b mem) io (cfg (i + (K.low code).length) a' b' mem') s'.io ∧ Rep K st mem' ∧
        (∀ v, r = some v → a' = v) ∧ FrmC K gs.offset K.S mem mem'
    | .undef _ => True := by
  obtain ⟨c1, gs1, c2, gs2, h1, h2, hcode, hgs'⟩ := callSeq_inv _ _ _ _ _ _ _ _ hg
  obtain ⟨hnc, hcnt⟩ := genCallActuals_noCall K.ctx (optArgsOf K.ρ es) { gs with size := gs.offset } (optArgsOf_noCall K.ρ es hp)
  rw [hnc] at h1
  simp only [Except.ok.injEq, Prod.mk.injEq] at h1
  obtain ⟨hc1, hgs1⟩ := h1
  subst hc1; subst hgs1
  rw [hcnt] at h2
  simp only [bumpN, CallKind.paramOffset, FB_PARAM_OFFSET_FUNC] at h2
  have hlen : (optArgsOf K.ρ es).length = es.length := by simp [optArgsOf]
  subst hgs'
  simp only [CallKind.paramOffset, FB_PARAM_OFFSET_FUNC, hlen] at hsz hci
  subst hcode
  simp only [List.nil_append, low_append] at hat ⊢
  have e2 := loadActuals_eff _ _ _ _ _ _ _ h2
  have ho : gs.offset ≤ gs2.size := e2.2.1
  have hb : gs2.size + (es.length + 2) ≤ K.S := Nat.le_trans (Nat.le_max_right _ _) hsz
  have hwl : ws.length = es.length := by
    have := evalArgs_length K.xc es fuel st s _ hev
    simpa using this
  obtain ⟨a1, b1, mem1, st1, rep1, hvals, _, frm1⟩ := exec_loadActuals K wf es fuel st s ws hp hev 2 gs.offset _ c2 gs2 i a b mem io
    (by rw [← hio]; exact ((evalArgs_pure K.xc es fuel st s _ hp hev).2.2.2.1).symm) h2
    hat.left hr (by omega) hnl (Nat.le_refl _) (fun x hx => hci x hx)
  simp only at frm1
  have htl := exec_systail K wf id hid ws st s gs2.labelCount gs.offset (i + (K.low c2).length) a1 b1 mem1 io hio hat.right rep1
    (fun k hk => hvals k hk) hnl (by omega)
  cases hd : X.doSyscall (BitVec.ofNat 32 id) (ws.map Val.int) s with
  | undef w => trivial
  | exit cd s' =>
    rw [hd] at htl
    obtain ⟨c, st2, ex⟩ := htl
    exact ⟨c, st1.trans st2, ex⟩
  | ok r s' =>
    rw [hd] at htl
    obtain ⟨a', b', mem', st2, rep2, hres, frm2⟩ := htl
    refine ⟨a', b', mem', ?_, rep2, hres, frm1.trans frm2⟩
    rw [List.length_append, ← Nat.add_assoc]
    exact st1.trans st2

end Hex.C01s
