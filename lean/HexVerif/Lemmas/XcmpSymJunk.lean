import HexVerif.Xcmp.Compile
import HexVerif.Lemmas.XcmpGenStmt
/-!
  C11, compile stage: the output of the compiler model does not depend on the content `j` of the
  uninitialised `Symbol::stackOffset` (`createSymbolsJ`, `stagesJ`): every symbol whose offset the
  generators read - a symbol of the scope of the procedure being generated - had it set by
  `FormalLocations` / `LocalDeclLocations` before.
-/
namespace Hex.Xcmp
open Hex.Asm (Dir LabelKind)

/-! ### Tables up to `stackOffset` -/

/-- Equal but for `stackOffset`. -/
def SEq (a b : Symbol) : Prop :=
  a.type = b.type ∧ a.node = b.node ∧ a.isValDecl = b.isValDecl ∧ a.scope = b.scope ∧ a.name = b.name ∧
  a.frame = b.frame ∧ a.globalLabel = b.globalLabel

theorem SEq.refl (a : Symbol) : SEq a a := ⟨rfl, rfl, rfl, rfl, rfl, rfl, rfl⟩

theorem SEq.eq {a b : Symbol} (h : SEq a b) (ho : a.stackOffset = b.stackOffset) : a = b := by
  obtain ⟨h1, h2, h3, h4, h5, h6, h7⟩ := h
  cases a; cases b
  simp only at h1 h2 h3 h4 h5 h6 h7 ho
  subst h1; subst h2; subst h3; subst h4; subst h5; subst h6; subst h7; subst ho
  rfl

/-- Two tables with the same keys whose symbols agree up to `stackOffset`, and fully on the keys in `D`. -/
structure TRel (D : SymKey → Prop) (t1 t2 : SymTab) : Prop where
  dom : ∀ k, (t1.find? k).isSome = (t2.find? k).isSome
  rel : ∀ k a b, t1.find? k = some a → t2.find? k = some b → SEq a b ∧ (D k → a.stackOffset = b.stackOffset)

theorem TRel.mono {D D' : SymKey → Prop} {t1 t2 : SymTab} (h : TRel D t1 t2) (hd : ∀ k, D' k → D k) : TRel D' t1 t2 :=
  ⟨h.dom, fun k a b h1 h2 => ⟨(h.rel k a b h1 h2).1, fun hk => (h.rel k a b h1 h2).2 (hd k hk)⟩⟩

theorem find?_cons (k k' : SymKey) (s : Symbol) (t : SymTab) :
    SymTab.find? ((k', s) :: t) k = if k' = k then some s else SymTab.find? t k := by
  conv => lhs; unfold SymTab.find?

theorem find?_modify : ∀ (t : SymTab) (k k' : SymKey) (f : Symbol → Symbol),
    (t.modify k f).find? k' = if k' = k then (t.find? k').map f else t.find? k' := by
  intro t
  induction t with
  | nil => intro k k' f; simp [SymTab.modify, SymTab.find?]
  | cons e rest ih =>
    intro k k' f
    obtain ⟨k0, s⟩ := e
    unfold SymTab.modify
    by_cases h0 : k0 = k
    · rw [if_pos h0, find?_cons, find?_cons]
      by_cases h1 : k0 = k'
      · rw [if_pos h1, if_pos h1]
        have : k' = k := by rw [← h1, h0]
        rw [if_pos this]; rfl
      · rw [if_neg h1, if_neg h1]
        have : ¬ k' = k := by intro e; exact h1 (by rw [h0, e])
        rw [if_neg this]
    · rw [if_neg h0, find?_cons, find?_cons, ih]
      by_cases h1 : k0 = k'
      · rw [if_pos h1, if_pos h1]
        have : ¬ k' = k := by intro e; exact h0 (by rw [h1, e])
        rw [if_neg this]
      · rw [if_neg h1, if_neg h1]

theorem keyOf_congr {t1 t2 : SymTab} (hdom : ∀ k, (t1.find? k).isSome = (t2.find? k).isSome) (scope n : String) :
    t1.keyOf scope n = t2.keyOf scope n := by
  unfold SymTab.keyOf
  have h1 := hdom (scope, n)
  have h2 := hdom ("", n)
  cases ha : t1.find? (scope, n) with
  | some a =>
    cases hb : t2.find? (scope, n) with
    | some b => rfl
    | none => rw [ha, hb] at h1; simp at h1
  | none =>
    cases hb : t2.find? (scope, n) with
    | some b => rw [ha, hb] at h1; simp at h1
    | none =>
      simp only
      cases hc : t1.find? ("", n) with
      | some a =>
        cases hd : t2.find? ("", n) with
        | some b => rfl
        | none => rw [hc, hd] at h2; simp at h2
      | none =>
        cases hd : t2.find? ("", n) with
        | some b => rw [hc, hd] at h2; simp at h2
        | none => rfl

theorem TRel.keyOf {D : SymKey → Prop} {t1 t2 : SymTab} (h : TRel D t1 t2) (scope n : String) :
    t1.keyOf scope n = t2.keyOf scope n := keyOf_congr h.dom scope n

/-- What `lookup` returns in related tables. -/
theorem TRel.lookup {D : SymKey → Prop} {t1 t2 : SymTab} (h : TRel D t1 t2) (scope n : String) :
    (∃ k a b, t1.keyOf scope n = some k ∧ t1.lookup scope n = .ok a ∧ t2.lookup scope n = .ok b ∧
        t1.find? k = some a ∧ t2.find? k = some b) ∨
    (t1.keyOf scope n = none ∧ t1.lookup scope n = .error (.unknownSymbol n) ∧ t2.lookup scope n = .error (.unknownSymbol n)) := by
  unfold SymTab.keyOf SymTab.lookup
  have h1 := h.dom (scope, n)
  have h2 := h.dom ("", n)
  cases ha : t1.find? (scope, n) with
  | some a =>
    cases hb : t2.find? (scope, n) with
    | some b => exact Or.inl ⟨_, a, b, rfl, rfl, rfl, ha, hb⟩
    | none => rw [ha, hb] at h1; simp at h1
  | none =>
    cases hb : t2.find? (scope, n) with
    | some b => rw [ha, hb] at h1; simp at h1
    | none =>
      simp only
      by_cases hs : scope ≠ ""
      · rw [if_pos hs, if_pos hs, if_pos hs]
        cases hc : t1.find? ("", n) with
        | some a =>
          cases hd : t2.find? ("", n) with
          | some b => exact Or.inl ⟨_, a, b, rfl, rfl, rfl, hc, hd⟩
          | none => rw [hc, hd] at h2; simp at h2
        | none =>
          cases hd : t2.find? ("", n) with
          | some b => rw [hc, hd] at h2; simp at h2
          | none => exact Or.inr ⟨rfl, rfl, rfl⟩
      · rw [if_neg hs, if_neg hs, if_neg hs]
        exact Or.inr ⟨rfl, rfl, rfl⟩

/-- The same update of the same key in related tables. -/
theorem TRel.modify {D D' : SymKey → Prop} {t1 t2 : SymTab} (h : TRel D t1 t2) (k : SymKey) (f : Symbol → Symbol)
    (hf : ∀ a b, SEq a b → SEq (f a) (f b))
    (hD : ∀ k', D' k' → k' ≠ k → D k')
    (hk : D' k → ∀ a b, SEq a b → (D k → a.stackOffset = b.stackOffset) → (f a).stackOffset = (f b).stackOffset) :
    TRel D' (t1.modify k f) (t2.modify k f) := by
  constructor
  · intro k'
    rw [find?_modify, find?_modify]
    by_cases hkk : k' = k
    · rw [if_pos hkk, if_pos hkk]
      simp only [Option.isSome_map]
      exact h.dom k'
    · rw [if_neg hkk, if_neg hkk]
      exact h.dom k'
  · intro k' a b ha hb
    rw [find?_modify] at ha hb
    by_cases hkk : k' = k
    · rw [if_pos hkk] at ha hb
      cases h1 : t1.find? k' with
      | none => rw [h1] at ha; simp at ha
      | some a0 =>
        cases h2 : t2.find? k' with
        | none => rw [h2] at hb; simp at hb
        | some b0 =>
          rw [h1] at ha; rw [h2] at hb
          simp only [Option.map_some, Option.some.injEq] at ha hb
          subst ha; subst hb
          obtain ⟨hs, ho⟩ := h.rel k' a0 b0 h1 h2
          refine ⟨hf a0 b0 hs, fun hd => ?_⟩
          subst hkk
          exact hk hd a0 b0 hs ho
    · rw [if_neg hkk] at ha hb
      obtain ⟨hs, ho⟩ := h.rel k' a b ha hb
      exact ⟨hs, fun hd => ho (hD k' hd hkk)⟩

theorem TRel.modifySym {D D' : SymKey → Prop} {t1 t2 : SymTab} (h : TRel D t1 t2) (scope n : String) (f : Symbol → Symbol)
    (hf : ∀ a b, SEq a b → SEq (f a) (f b))
    (hD : ∀ k', D' k' → t1.keyOf scope n ≠ some k' → D k')
    (hk : ∀ k, t1.keyOf scope n = some k → D' k → ∀ a b, SEq a b → (D k → a.stackOffset = b.stackOffset) →
      (f a).stackOffset = (f b).stackOffset) :
    TRel D' (modifySym t1 scope n f) (modifySym t2 scope n f) := by
  unfold Xcmp.modifySym
  rw [← h.keyOf scope n]
  cases hk0 : t1.keyOf scope n with
  | none =>
    simp only
    exact ⟨h.dom, fun k a b h1 h2 => ⟨(h.rel k a b h1 h2).1, fun hd => (h.rel k a b h1 h2).2 (hD k hd (by rw [hk0]; simp))⟩⟩
  | some k =>
    simp only
    exact h.modify k f hf (fun k' hd hne => hD k' hd (by rw [hk0]; intro e; exact hne (Option.some.inj e).symm))
      (hk k hk0)

/-! ### The generators see a table only through `lookup`, and `stackOffset` only of local symbols -/

/-- What the generators of a procedure need of two tables. -/
def LkRel (scope : String) (t1 t2 : SymTab) : Prop :=
  ∀ n, (∃ a b, t1.lookup scope n = .ok a ∧ t2.lookup scope n = .ok b ∧ SEq a b ∧
          (a.scope ≠ "" → a.stackOffset = b.stackOffset)) ∨
       (∃ e, t1.lookup scope n = .error e ∧ t2.lookup scope n = .error e)

theorem genVar_rel (reg : Reg) (a b : Symbol) (h : SEq a b) (ho : a.scope ≠ "" → a.stackOffset = b.stackOffset) :
    genVar reg a = genVar reg b := by
  obtain ⟨h1, h2, h3, h4, h5, h6, h7⟩ := h
  unfold genVar
  by_cases hs : a.scope = ""
  · rw [if_pos hs, if_pos (by rw [← h4]; exact hs), h7]
  · rw [if_neg hs, if_neg (by rw [← h4]; exact hs), h6, ho hs]

section
variable (t1 t2 : SymTab) (sc : String) (fr : Nat) (xl : String) (hrel : LkRel sc t1 t2)

/-- A table lookup lifted into the generator monad, followed by a continuation that cannot tell
    related symbols apart. -/
theorem lookup_bind_rel {β : Type} (n : String) (k1 k2 : Symbol → M β) (hrel : LkRel sc t1 t2)
    (hk : ∀ a b, SEq a b → (a.scope ≠ "" → a.stackOffset = b.stackOffset) → k1 a = k2 b) :
    ((do let sym ← (t1.lookup sc n : Except CDiag Symbol); k1 sym) : M β) =
    (do let sym ← (t2.lookup sc n : Except CDiag Symbol); k2 sym) := by
  rcases hrel n with ⟨a, b, h1, h2, hs, ho⟩ | ⟨e, h1, h2⟩
  · rw [h1, h2]
    funext gs
    simp only [bind, StateT.bind, liftM, monadLift, MonadLift.monadLift, StateT.lift, Except.bind, pure, Except.pure]
    rw [hk a b hs ho]
  · rw [h1, h2]
    funext gs
    simp only [bind, StateT.bind, liftM, monadLift, MonadLift.monadLift, StateT.lift, Except.bind]

end

section
variable (t1 t2 : SymTab) (sc : String) (fr : Nat) (xl : String)

theorem exprCallKind_rel (hrel : LkRel sc t1 t2) (sys : Int) (f : String) :
    exprCallKind ⟨t1, sc, fr, xl⟩ sys f = exprCallKind ⟨t2, sc, fr, xl⟩ sys f := by
  unfold exprCallKind
  by_cases hs : sys ≠ -1
  · rw [if_pos hs, if_pos hs]
  · rw [if_neg hs, if_neg hs]
    exact lookup_bind_rel t1 t2 sc f _ _ hrel (fun a b h _ => by rw [h.1])

/-- **Expression code depends on the table only up to `LkRel`.** -/
theorem genExpr_rel (hrel : LkRel sc t1 t2) (e : AExpr) (reg : Reg) :
    genExpr ⟨t1, sc, fr, xl⟩ e reg = genExpr ⟨t2, sc, fr, xl⟩ e reg := by
  apply genExpr.induct
    (motive_1 := fun e reg => genExpr ⟨t1, sc, fr, xl⟩ e reg = genExpr ⟨t2, sc, fr, xl⟩ e reg)
    (motive_2 := fun args p s => loadActuals ⟨t1, sc, fr, xl⟩ args p s = loadActuals ⟨t2, sc, fr, xl⟩ args p s)
    (motive_3 := fun args => genCallActuals ⟨t1, sc, fr, xl⟩ args = genCallActuals ⟨t2, sc, fr, xl⟩ args)
  -- num, bool, str, name
  · intro v c reg; rw [genExpr_num, genExpr_num]
  · intro b c reg; rw [genExpr_bool, genExpr_bool]
  · intro bs reg; rw [genExpr_str, genExpr_str]
  · intro n reg v; rw [genExpr_name_const, genExpr_name_const]
  · intro n reg
    unfold genExpr
    exact lookup_bind_rel t1 t2 sc n _ _ hrel (fun a b h ho => by rw [genVar_rel reg a b h ho])
  -- sub
  · intro n i x ih
    unfold genExpr
    refine lookup_bind_rel t1 t2 sc n _ _ hrel (fun a b h ho => ?_)
    rw [genVar_rel .A a b h ho, genVar_rel .B a b h ho, ih]
  -- call
  · intro sys f args x ih3 ih2
    unfold genExpr
    rw [exprCallKind_rel t1 t2 sc fr xl hrel, ih3]
    congr
    funext kind
    congr
    funext p s
    exact ih2 p s
  -- un const, not, neg
  · intro op e reg v; rw [genExpr_un_const, genExpr_un_const]
  · intro e reg ih
    unfold genExpr
    rw [ih]
  · intro e reg
    unfold genExpr
    rfl
  -- bin const
  · intro op l r reg v; rw [genExpr_bin_const, genExpr_bin_const]
  -- plus, minus
  · intro l r reg ihl ihra ihrb
    unfold genExpr
    simp only [binopOperands, ihl, ihra, ihrb]
  · intro l r reg ihl ihra ihrb
    unfold genExpr
    simp only [binopOperands, ihl, ihra, ihrb]
  -- and, or
  · intro l r reg ihl ihr
    unfold genExpr
    rw [ihl, ihr]
  · intro l r reg ihl ihr
    unfold genExpr
    rw [ihl, ihr]
  -- eq, ls
  · intro l r reg ihl ihra ihrb
    unfold genExpr
    simp only [binopOperands, ihl, ihra, ihrb]
  · intro l r reg ihl ihra ihrb
    unfold genExpr
    simp only [binopOperands, ihl, ihra, ihrb]
  -- other operators
  · intro op l r reg h1 h2 h3 h4 h5 h6
    unfold genExpr
    cases op <;> first | (exact absurd rfl h1) | (exact absurd rfl h2) | (exact absurd rfl h3) | (exact absurd rfl h4)
                       | (exact absurd rfl h5) | (exact absurd rfl h6) | rfl
  -- loadActuals
  · intro p s; unfold loadActuals; rfl
  · intro arg rest p s hc ih
    unfold loadActuals
    simp only [hc, if_true, ih]
  · intro arg rest p s hc ih1 ih
    unfold loadActuals
    simp only [hc, Bool.false_eq_true, if_false, ih1, ih]
  -- genCallActuals
  · unfold genCallActuals; rfl
  · intro a as hc ih1 ih
    unfold genCallActuals
    simp only [hc, if_true, ih1, ih]
  · intro a as hc ih
    unfold genCallActuals
    simp only [hc, Bool.false_eq_true, if_false, ih]

end

section
variable (t1 t2 : SymTab) (sc : String) (fr : Nat) (xl : String)

theorem loadActuals_rel (hrel : LkRel sc t1 t2) : ∀ (args : List AExpr) (p s : Nat),
    loadActuals ⟨t1, sc, fr, xl⟩ args p s = loadActuals ⟨t2, sc, fr, xl⟩ args p s := by
  intro args
  induction args with
  | nil => intro p s; unfold loadActuals; rfl
  | cons a as ih =>
    intro p s
    unfold loadActuals
    simp only [ih, genExpr_rel t1 t2 sc fr xl hrel]

theorem genCallActuals_rel (hrel : LkRel sc t1 t2) : ∀ (args : List AExpr),
    genCallActuals ⟨t1, sc, fr, xl⟩ args = genCallActuals ⟨t2, sc, fr, xl⟩ args := by
  intro args
  induction args with
  | nil => unfold genCallActuals; rfl
  | cons a as ih =>
    unfold genCallActuals
    simp only [ih, genExpr_rel t1 t2 sc fr xl hrel]

/-- **Statement code depends on the table only up to `LkRel`.** -/
theorem genStmt_rel (hrel : LkRel sc t1 t2) (s : AStmt) :
    genStmt ⟨t1, sc, fr, xl⟩ s = genStmt ⟨t2, sc, fr, xl⟩ s := by
  apply genStmt.induct
    (motive_1 := fun s => genStmt ⟨t1, sc, fr, xl⟩ s = genStmt ⟨t2, sc, fr, xl⟩ s)
    (motive_2 := fun ss => genStmts ⟨t1, sc, fr, xl⟩ ss = genStmts ⟨t2, sc, fr, xl⟩ ss)
  · unfold genStmt; rfl
  · unfold genStmt; rfl
  · intro e
    unfold genStmt
    rw [genExpr_rel t1 t2 sc fr xl hrel]
  · intro cond t e hs hc
    unfold genStmt
    simp only [hs, hc, and_self, if_true, genExpr_rel t1 t2 sc fr xl hrel]
  · intro cond t e hs hc
    unfold genStmt
    simp only [hs, hc, and_self, if_true, Bool.false_eq_true, if_false]
  · intro cond t e hs hes iht
    unfold genStmt
    simp only [hs, hes, if_false, if_true, iht, genExpr_rel t1 t2 sc fr xl hrel, Bool.false_eq_true, and_false, and_true, true_and, false_and]
  · intro cond t e hs hes hts ihe
    unfold genStmt
    simp only [hs, hes, hts, if_false, if_true, ihe, genExpr_rel t1 t2 sc fr xl hrel, Bool.false_eq_true, and_false, and_true, true_and, false_and]
  · intro cond t e hs hes hts iht ihe
    unfold genStmt
    simp only [hs, hes, hts, if_false, if_true, iht, ihe, genExpr_rel t1 t2 sc fr xl hrel, Bool.false_eq_true, and_false, and_true, true_and, false_and]
  · intro cond body ihb
    unfold genStmt
    simp only [ihb, genExpr_rel t1 t2 sc fr xl hrel]
  · intro ss ih
    unfold genStmt
    exact ih
  · intro n e
    unfold genStmt
    rw [genExpr_rel t1 t2 sc fr xl hrel]
    congr
    funext c
    refine lookup_bind_rel t1 t2 sc n _ _ hrel (fun a b h ho => ?_)
    obtain ⟨h1, h2, h3, h4, h5, h6, h7⟩ := h
    by_cases hsc : a.scope = ""
    · rw [if_pos hsc, if_pos (by rw [← h4]; exact hsc), h7]
    · rw [if_neg hsc, if_neg (by rw [← h4]; exact hsc), ho hsc]
  · intro n i e
    unfold genStmt
    rw [genExpr_rel t1 t2 sc fr xl hrel i]
    congr
    funext ci
    refine lookup_bind_rel t1 t2 sc n _ _ hrel (fun a b h ho => ?_)
    rw [genVar_rel .B a b h ho, genExpr_rel t1 t2 sc fr xl hrel e]
  · intro sys f args
    unfold genStmt
    simp only [genCallActuals_rel t1 t2 sc fr xl hrel, loadActuals_rel t1 t2 sc fr xl hrel]
  · unfold genStmts; rfl
  · intro s ss ih1 ih2
    unfold genStmts
    rw [ih1, ih2]

end

/-! ### `CreateSymbols` -/

/-- Facts about a table built by `CreateSymbols`: every symbol records its key; a key of a
    non-global scope belongs to a formal or local of a procedure with that name. -/
structure TblInv (names : String → List String → Prop) (t : SymTab) : Prop where
  scope : ∀ k a, t.find? k = some a → a.scope = k.1
  local_ : ∀ k, (t.find? k).isSome = true → k.1 ≠ "" → ∃ ns, names k.1 ns ∧ k.2 ∈ ns

theorem insert_ok (t : SymTab) (k : SymKey) (s : Symbol) (t' : SymTab) (h : t.insert k s = .ok t') :
    t.find? k = none ∧ t' = (k, s) :: t := by
  unfold SymTab.insert at h
  cases hf : t.find? k with
  | some x => rw [hf] at h; simp at h
  | none => rw [hf] at h; simp only [Except.ok.injEq] at h; exact ⟨rfl, h.symm⟩

theorem insert_rel {D : SymKey → Prop} {t1 t2 : SymTab} (h : TRel D t1 t2) (k : SymKey) (s1 s2 : Symbol) (hs : SEq s1 s2)
    (hD : D k → s1.stackOffset = s2.stackOffset) :
    (∃ t1' t2', t1.insert k s1 = .ok t1' ∧ t2.insert k s2 = .ok t2' ∧ TRel D t1' t2') ∨
    (∃ e, t1.insert k s1 = .error e ∧ t2.insert k s2 = .error e) := by
  unfold SymTab.insert
  have hd := h.dom k
  cases h1 : t1.find? k with
  | some a =>
    cases h2 : t2.find? k with
    | some b => exact Or.inr ⟨_, rfl, rfl⟩
    | none => rw [h1, h2] at hd; simp at hd
  | none =>
    cases h2 : t2.find? k with
    | some b => rw [h1, h2] at hd; simp at hd
    | none =>
      refine Or.inl ⟨_, _, rfl, rfl, ?_, ?_⟩
      · intro k'
        rw [find?_cons, find?_cons]
        by_cases hk : k = k'
        · rw [if_pos hk, if_pos hk]; rfl
        · rw [if_neg hk, if_neg hk]; exact h.dom k'
      · intro k' a b ha hb
        rw [find?_cons] at ha hb
        by_cases hk : k = k'
        · rw [if_pos hk] at ha hb
          simp only [Option.some.injEq] at ha hb
          subst ha; subst hb; subst hk
          exact ⟨hs, hD⟩
        · rw [if_neg hk] at ha hb
          exact h.rel k' a b ha hb

/-- Results that agree: related values or the same diagnostic. -/
def ERel {α : Type} (R : α → α → Prop) : Except CDiag α → Except CDiag α → Prop
  | .ok a, .ok b => R a b
  | .error e, .error f => e = f
  | _, _ => False

def NoD : SymKey → Prop := fun _ => False

theorem ERel.bind {α β : Type} {R : α → α → Prop} {R' : β → β → Prop} {x y : Except CDiag α}
    {f g : α → Except CDiag β} (h : ERel R x y) (hf : ∀ a b, R a b → ERel R' (f a) (g b)) :
    ERel R' (x >>= f) (y >>= g) := by
  cases x <;> cases y <;> simp only [ERel] at h
  · subst h; show ERel R' (Except.error _) (Except.error _); simp only [ERel]
  · exact hf _ _ h

theorem ERel.imp {α : Type} {R R' : α → α → Prop} {x y : Except CDiag α} (h : ERel R x y) (hi : ∀ a b, R a b → R' a b) :
    ERel R' x y := by
  cases x <;> cases y <;> simp only [ERel] at h ⊢
  · exact h
  · exact hi _ _ h

theorem TblInv.cons {names : String → List String → Prop} {t : SymTab} (h : TblInv names t) (k : SymKey) (s : Symbol)
    (hs : s.scope = k.1) (hl : k.1 ≠ "" → ∃ ns, names k.1 ns ∧ k.2 ∈ ns) : TblInv names ((k, s) :: t) := by
  constructor
  · intro k' a ha
    rw [find?_cons] at ha
    by_cases hk : k = k'
    · rw [if_pos hk] at ha
      simp only [Option.some.injEq] at ha
      subst ha; subst hk; exact hs
    · rw [if_neg hk] at ha; exact h.scope k' a ha
  · intro k' hk' hne
    rw [find?_cons] at hk'
    by_cases hk : k = k'
    · subst hk; exact hl hne
    · rw [if_neg hk] at hk'; exact h.local_ k' hk' hne

theorem createGlobals_rel (j1 j2 : Int) (names : String → List String → Prop) :
    ∀ (ds : List X.Decl) (i : Nat) (t1 t2 : SymTab), TRel NoD t1 t2 → TblInv names t1 →
      ERel (fun a b => TRel NoD a b ∧ TblInv names a) (createGlobalsJ j1 ds i t1) (createGlobalsJ j2 ds i t2) := by
  intro ds
  induction ds with
  | nil => intro i t1 t2 h hi; exact ⟨h, hi⟩
  | cons d ds ih =>
    intro i t1 t2 h hi
    unfold createGlobalsJ
    rcases insert_rel h ("", d.name)
        { type := declSymType d, node := .gdecl i, isValDecl := declIsVal d, scope := "", name := d.name, stackOffset := j1 }
        { type := declSymType d, node := .gdecl i, isValDecl := declIsVal d, scope := "", name := d.name, stackOffset := j2 }
        ⟨rfl, rfl, rfl, rfl, rfl, rfl, rfl⟩ (fun hd => absurd hd id) with ⟨t1', t2', e1, e2, hr⟩ | ⟨e, e1, e2⟩
    · rw [e1, e2]
      simp only [bind, Except.bind]
      obtain ⟨_, ht⟩ := insert_ok _ _ _ _ e1
      exact ih (i + 1) t1' t2' hr (by rw [ht]; exact hi.cons _ _ rfl (fun hne => absurd rfl hne))
    · rw [e1, e2]
      simp only [bind, Except.bind, ERel]

theorem createFormals_rel (j1 j2 : Int) (names : String → List String → Prop) (p : Nat) (scope : String)
    (ns : List String) (hns : scope ≠ "" → names scope ns) :
    ∀ (fs : List X.Formal) (i : Nat) (t1 t2 : SymTab), TRel NoD t1 t2 → TblInv names t1 →
      (∀ f ∈ fs, f.name ∈ ns) →
      ERel (fun a b => TRel NoD a b ∧ TblInv names a) (createFormalsJ j1 p scope fs i t1) (createFormalsJ j2 p scope fs i t2) := by
  intro fs
  induction fs with
  | nil => intro i t1 t2 h hi _; exact ⟨h, hi⟩
  | cons f fs ih =>
    intro i t1 t2 h hi hmem
    unfold createFormalsJ
    rcases insert_rel h (scope, f.name)
        { type := formalSymType f, node := .formal p i, isValDecl := false, scope := scope, name := f.name, stackOffset := j1 }
        { type := formalSymType f, node := .formal p i, isValDecl := false, scope := scope, name := f.name, stackOffset := j2 }
        ⟨rfl, rfl, rfl, rfl, rfl, rfl, rfl⟩ (fun hd => absurd hd id) with ⟨t1', t2', e1, e2, hr⟩ | ⟨e, e1, e2⟩
    · rw [e1, e2]
      simp only [bind, Except.bind]
      obtain ⟨_, ht⟩ := insert_ok _ _ _ _ e1
      exact ih (i + 1) t1' t2' hr
        (by rw [ht]; exact hi.cons _ _ rfl (fun hne => ⟨ns, hns hne, hmem f (by simp)⟩))
        (fun g hg => hmem g (List.mem_cons_of_mem _ hg))
    · rw [e1, e2]
      simp only [bind, Except.bind, ERel]

theorem createLocals_rel (j1 j2 : Int) (names : String → List String → Prop) (p : Nat) (scope : String)
    (ns : List String) (hns : scope ≠ "" → names scope ns) :
    ∀ (ds : List X.Decl) (i : Nat) (t1 t2 : SymTab), TRel NoD t1 t2 → TblInv names t1 →
      (∀ d ∈ ds, d.name ∈ ns) →
      ERel (fun a b => TRel NoD a b ∧ TblInv names a) (createLocalsJ j1 p scope ds i t1) (createLocalsJ j2 p scope ds i t2) := by
  intro ds
  induction ds with
  | nil => intro i t1 t2 h hi _; exact ⟨h, hi⟩
  | cons d ds ih =>
    intro i t1 t2 h hi hmem
    unfold createLocalsJ
    rcases insert_rel h (scope, d.name)
        { type := declSymType d, node := .ldecl p i, isValDecl := declIsVal d, scope := scope, name := d.name, stackOffset := j1 }
        { type := declSymType d, node := .ldecl p i, isValDecl := declIsVal d, scope := scope, name := d.name, stackOffset := j2 }
        ⟨rfl, rfl, rfl, rfl, rfl, rfl, rfl⟩ (fun hd => absurd hd id) with ⟨t1', t2', e1, e2, hr⟩ | ⟨e, e1, e2⟩
    · rw [e1, e2]
      simp only [bind, Except.bind]
      obtain ⟨_, ht⟩ := insert_ok _ _ _ _ e1
      exact ih (i + 1) t1' t2' hr
        (by rw [ht]; exact hi.cons _ _ rfl (fun hne => ⟨ns, hns hne, hmem d (by simp)⟩))
        (fun g hg => hmem g (List.mem_cons_of_mem _ hg))
    · rw [e1, e2]
      simp only [bind, Except.bind, ERel]

/-- The names a procedure declares in its scope. -/
def procNames (p : X.Proc) : List String := p.formals.map X.Formal.name ++ p.locals.map X.Decl.name

theorem createProcs_rel (j1 j2 : Int) (all : List X.Proc) :
    ∀ (ps : List X.Proc) (i : Nat) (t1 t2 : SymTab), (∀ p ∈ ps, p ∈ all) → TRel NoD t1 t2 →
      TblInv (fun sc ns => ∃ q ∈ all, q.name = sc ∧ ns = procNames q) t1 →
      ERel (fun a b => TRel NoD a b ∧ TblInv (fun sc ns => ∃ q ∈ all, q.name = sc ∧ ns = procNames q) a)
        (createProcsJ j1 ps i t1) (createProcsJ j2 ps i t2) := by
  intro ps
  induction ps with
  | nil => intro i t1 t2 _ h hi; exact ⟨h, hi⟩
  | cons p ps ih =>
    intro i t1 t2 hall h hi
    have hp : p ∈ all := hall p (by simp)
    unfold createProcsJ
    rcases insert_rel h ("", p.name)
        { type := if p.isFunc then .func else .proc, node := .proc i, isValDecl := false, scope := "", name := p.name, stackOffset := j1 }
        { type := if p.isFunc then .func else .proc, node := .proc i, isValDecl := false, scope := "", name := p.name, stackOffset := j2 }
        ⟨rfl, rfl, rfl, rfl, rfl, rfl, rfl⟩ (fun hd => absurd hd id) with ⟨t1', t2', e1, e2, hr⟩ | ⟨e, e1, e2⟩
    · rw [e1, e2]
      simp only [bind, Except.bind]
      obtain ⟨_, ht⟩ := insert_ok _ _ _ _ e1
      have hi1 : TblInv (fun sc ns => ∃ q ∈ all, q.name = sc ∧ ns = procNames q) t1' := by
        rw [ht]; exact hi.cons _ _ rfl (fun hne => absurd rfl hne)
      have hf := createFormals_rel j1 j2 _ i p.name (procNames p) (fun _ => ⟨p, hp, rfl, rfl⟩) p.formals 0 t1' t2' hr hi1
        (fun f hf => List.mem_append_left _ (List.mem_map.mpr ⟨f, hf, rfl⟩))
      cases h3 : createFormalsJ j1 i p.name p.formals 0 t1' with
      | error e3 =>
        cases h4 : createFormalsJ j2 i p.name p.formals 0 t2' with
        | error e4 => rw [h3, h4] at hf; simp only [ERel] at hf ⊢; exact hf
        | ok v => rw [h3, h4] at hf; exact absurd hf id
      | ok u1 =>
        cases h4 : createFormalsJ j2 i p.name p.formals 0 t2' with
        | error e4 => rw [h3, h4] at hf; exact absurd hf id
        | ok u2 =>
          rw [h3, h4] at hf
          obtain ⟨hr2, hi2⟩ := hf
          simp only
          have hl := createLocals_rel j1 j2 _ i p.name (procNames p) (fun _ => ⟨p, hp, rfl, rfl⟩) p.locals 0 u1 u2 hr2 hi2
            (fun d hd => List.mem_append_right _ (List.mem_map.mpr ⟨d, hd, rfl⟩))
          cases h5 : createLocalsJ j1 i p.name p.locals 0 u1 with
          | error e5 =>
            cases h6 : createLocalsJ j2 i p.name p.locals 0 u2 with
            | error e6 => rw [h5, h6] at hl; simp only [ERel] at hl ⊢; exact hl
            | ok v => rw [h5, h6] at hl; exact absurd hl id
          | ok w1 =>
            cases h6 : createLocalsJ j2 i p.name p.locals 0 u2 with
            | error e6 => rw [h5, h6] at hl; exact absurd hl id
            | ok w2 =>
              rw [h5, h6] at hl
              obtain ⟨hr3, hi3⟩ := hl
              simp only
              exact ih (i + 1) w1 w2 (fun q hq => hall q (List.mem_cons_of_mem _ hq)) hr3 hi3
    · rw [e1, e2]
      simp only [bind, Except.bind, ERel]

theorem trel_nil : TRel NoD [] [] := ⟨fun _ => rfl, fun k a b h _ => by simp [SymTab.find?] at h⟩

theorem tblInv_nil (names : String → List String → Prop) : TblInv names [] :=
  ⟨fun k a h => by simp [SymTab.find?] at h, fun k h _ => by simp [SymTab.find?] at h⟩

/-- **`CreateSymbols`** from two junk values: the same diagnostic, or tables equal up to
    `stackOffset` whose local keys belong to the procedures of the program. -/
theorem createSymbols_rel (j1 j2 : Int) (P : X.Program) :
    ERel (fun a b => TRel NoD a b ∧ TblInv (fun sc ns => ∃ q ∈ P.procs, q.name = sc ∧ ns = procNames q) a)
      (createSymbolsJ j1 P) (createSymbolsJ j2 P) := by
  unfold createSymbolsJ
  have hg := createGlobals_rel j1 j2 (fun sc ns => ∃ q ∈ P.procs, q.name = sc ∧ ns = procNames q) P.globals 0 [] []
    trel_nil (tblInv_nil _)
  cases h1 : createGlobalsJ j1 P.globals 0 [] with
  | error e1 =>
    cases h2 : createGlobalsJ j2 P.globals 0 [] with
    | error e2 => rw [h1, h2] at hg; simp only [ERel, bind, Except.bind] at hg ⊢; exact hg
    | ok v => rw [h1, h2] at hg; exact absurd hg id
  | ok u1 =>
    cases h2 : createGlobalsJ j2 P.globals 0 [] with
    | error e2 => rw [h1, h2] at hg; exact absurd hg id
    | ok u2 =>
      rw [h1, h2] at hg
      simp only [bind, Except.bind]
      exact createProcs_rel j1 j2 P.procs P.procs 0 u1 u2 (fun _ h => h) hg.1 hg.2

/-! ### `ConstProp` reads `scope`, `isValDecl`, `node` only -/

section
variable {D : SymKey → Prop} {t1 t2 : SymTab} (hT : TRel D t1 t2)
include hT

theorem lookup_rel_cases (scope n : String) :
    (∃ a b, t1.lookup scope n = .ok a ∧ t2.lookup scope n = .ok b ∧ SEq a b) ∨
    (∃ e, t1.lookup scope n = .error e ∧ t2.lookup scope n = .error e) := by
  rcases hT.lookup scope n with ⟨k, a, b, _, h1, h2, h3, h4⟩ | ⟨_, h1, h2⟩
  · exact Or.inl ⟨a, b, h1, h2, (hT.rel k a b h3 h4).1⟩
  · exact Or.inr ⟨_, h1, h2⟩

theorem lookupVal_rel (st : CPState) (scope name : String) : lookupVal t1 st scope name = lookupVal t2 st scope name := by
  unfold lookupVal
  rcases lookup_rel_cases hT scope name with ⟨a, b, h1, h2, hs⟩ | ⟨e, h1, h2⟩
  · rw [h1, h2]
    simp only [bind, Except.bind]
    obtain ⟨e1, e2, e3, e4, e5, e6, e7⟩ := hs
    by_cases hc : a.scope ≠ "" ∧ ¬ st.declared.contains name = true
    · rw [if_pos hc, if_pos (by rw [← e4]; exact hc)]
      rcases lookup_rel_cases hT "" name with ⟨a', b', h1', h2', hs'⟩ | ⟨e, h1', h2'⟩
      · rw [h1', h2']
        simp only
        rw [hs'.2.2.1, hs'.2.1]
      · rw [h1', h2']
    · rw [if_neg hc, if_neg (by rw [← e4]; exact hc)]
      simp only [pure, Except.pure]
      rw [e3, e2]
  · rw [h1, h2]
    rfl

theorem cpCall_rel (st : CPState) (scope : String) (sys : Int) (f : String) :
    cpCall t1 st scope sys f = cpCall t2 st scope sys f := by
  unfold cpCall
  rw [lookupVal_rel hT]

mutual
theorem cpExpr_rel (st : CPState) (scope : String) : (e : X.Expr) → cpExpr t1 st scope e = cpExpr t2 st scope e
  | .num v => by unfold cpExpr; rfl
  | .bool b => by unfold cpExpr; rfl
  | .str bs => by unfold cpExpr; rfl
  | .name n => by unfold cpExpr; rw [lookupVal_rel hT]
  | .sub n i => by unfold cpExpr; rw [cpExpr_rel st scope i]
  | .call f args => by unfold cpExpr; rw [cpArgs_rel st scope args, cpCall_rel hT]
  | .syscall id args => by unfold cpExpr; rw [cpArgs_rel st scope args, cpCall_rel hT]
  | .un op e => by unfold cpExpr; rw [cpExpr_rel st scope e]
  | .bin op l r => by unfold cpExpr; rw [cpExpr_rel st scope l, cpExpr_rel st scope r]
theorem cpArgs_rel (st : CPState) (scope : String) : (es : List X.Expr) → cpArgs t1 st scope es = cpArgs t2 st scope es
  | [] => by unfold cpArgs; rfl
  | e :: es => by unfold cpArgs; rw [cpExpr_rel st scope e, cpArgs_rel st scope es]
end

mutual
theorem cpStmt_rel (st : CPState) (scope : String) : (s : X.Stmt) → cpStmt t1 st scope s = cpStmt t2 st scope s
  | .skip => by unfold cpStmt; rfl
  | .stop => by unfold cpStmt; rfl
  | .ret e => by unfold cpStmt; rw [cpExpr_rel hT]
  | .ite c t e => by unfold cpStmt; rw [cpExpr_rel hT, cpStmt_rel st scope t, cpStmt_rel st scope e]
  | .while c b => by unfold cpStmt; rw [cpExpr_rel hT, cpStmt_rel st scope b]
  | .seq ss => by unfold cpStmt; rw [cpStmts_rel st scope ss]
  | .assign n e => by unfold cpStmt; rw [lookupVal_rel hT, cpExpr_rel hT]
  | .assignSub n i e => by unfold cpStmt; rw [cpExpr_rel hT st scope i, cpExpr_rel hT st scope e]
  | .call f args => by unfold cpStmt; rw [cpArgs_rel hT, cpCall_rel hT]
  | .syscall id args => by unfold cpStmt; rw [cpArgs_rel hT, cpCall_rel hT]
theorem cpStmts_rel (st : CPState) (scope : String) : (ss : List X.Stmt) → cpStmts t1 st scope ss = cpStmts t2 st scope ss
  | [] => by unfold cpStmts; rfl
  | s :: ss => by unfold cpStmts; rw [cpStmt_rel st scope s, cpStmts_rel st scope ss]
end

theorem cpDecls_rel (scope : String) (mk : Nat → NodeRef) : ∀ (ds : List X.Decl) (i : Nat) (st : CPState),
    cpDecls t1 scope mk ds i st = cpDecls t2 scope mk ds i st := by
  intro ds
  induction ds with
  | nil => intro i st; unfold cpDecls; rfl
  | cons d ds ih =>
    intro i st
    unfold cpDecls
    cases d with
    | val n e => simp only [cpExpr_rel hT, ih]
    | var n => simp only [ih]
    | array n e => simp only [cpExpr_rel hT, ih]

theorem cpProcs_rel : ∀ (ps : List X.Proc) (i : Nat) (st : CPState), cpProcs t1 ps i st = cpProcs t2 ps i st := by
  intro ps
  induction ps with
  | nil => intro i st; unfold cpProcs; rfl
  | cons p ps ih =>
    intro i st
    unfold cpProcs
    simp only [cpDecls_rel hT, cpStmt_rel hT, ih]

theorem constProp_rel (P : X.Program) : constProp t1 P = constProp t2 P := by
  unfold constProp
  simp only [cpDecls_rel hT, cpProcs_rel hT]

end

/-! ### `CodeGen` -/

theorem find?_isSome_modify (t : SymTab) (k k' : SymKey) (f : Symbol → Symbol) :
    ((t.modify k f).find? k').isSome = (t.find? k').isSome := by
  rw [find?_modify]
  by_cases h : k' = k
  · rw [if_pos h]; simp
  · rw [if_neg h]

theorem keyOf_modify (t : SymTab) (k : SymKey) (f : Symbol → Symbol) (scope n : String) :
    (t.modify k f).keyOf scope n = t.keyOf scope n :=
  keyOf_congr (fun k' => find?_isSome_modify t k k' f) scope n

theorem keyOf_modifySym (t : SymTab) (sc m : String) (f : Symbol → Symbol) (scope n : String) :
    (modifySym t sc m f).keyOf scope n = t.keyOf scope n := by
  unfold modifySym
  cases t.keyOf sc m with
  | none => rfl
  | some k => exact keyOf_modify t k f scope n

theorem TblInv.modify {names : String → List String → Prop} {t : SymTab} (h : TblInv names t) (k : SymKey) (f : Symbol → Symbol)
    (hf : ∀ a, (f a).scope = a.scope) : TblInv names (t.modify k f) := by
  constructor
  · intro k' a ha
    rw [find?_modify] at ha
    by_cases hk : k' = k
    · rw [if_pos hk] at ha
      cases h0 : t.find? k' with
      | none => rw [h0] at ha; simp at ha
      | some a0 =>
        rw [h0] at ha
        simp only [Option.map_some, Option.some.injEq] at ha
        rw [← ha, hf]
        exact h.scope k' a0 h0
    · rw [if_neg hk] at ha; exact h.scope k' a ha
  · intro k' hk' hne
    rw [find?_isSome_modify] at hk'
    exact h.local_ k' hk' hne

theorem TblInv.modifySym {names : String → List String → Prop} {t : SymTab} (h : TblInv names t) (sc m : String)
    (f : Symbol → Symbol) (hf : ∀ a, (f a).scope = a.scope) : TblInv names (modifySym t sc m f) := by
  unfold Xcmp.modifySym
  cases t.keyOf sc m with
  | none => exact h
  | some k => exact h.modify k f hf

/-- The keys whose offset an update of the names `ms` (looked up from `sc`) sets. -/
def Dof (t : SymTab) (sc : String) (ms : List String) : SymKey → Prop := fun k => ∃ m ∈ ms, t.keyOf sc m = some k

theorem formalLocations_rel (sc : String) (fr : Nat) : ∀ (fs : List X.Formal) (fbo : Int) (D : SymKey → Prop) (t1 t2 : SymTab),
    TRel D t1 t2 →
    TRel (fun k => D k ∨ Dof t1 sc (fs.map X.Formal.name) k) (formalLocations sc fr fs fbo t1) (formalLocations sc fr fs fbo t2) ∧
    (∀ scope n, (formalLocations sc fr fs fbo t1).keyOf scope n = t1.keyOf scope n) := by
  intro fs
  induction fs with
  | nil =>
    intro fbo D t1 t2 h
    exact ⟨h.mono (fun k hk => by rcases hk with hk | ⟨m, hm, _⟩; exact hk; simp at hm), fun _ _ => rfl⟩
  | cons f fs ih =>
    intro fbo D t1 t2 h
    unfold formalLocations
    have h1 : TRel (fun k' => D k' ∨ t1.keyOf sc f.name = some k')
        (modifySym t1 sc f.name fun s => { s with stackOffset := fbo, frame := fr })
        (modifySym t2 sc f.name fun s => { s with stackOffset := fbo, frame := fr }) :=
      h.modifySym sc f.name _ (fun a b hs => ⟨hs.1, hs.2.1, hs.2.2.1, hs.2.2.2.1, hs.2.2.2.2.1, rfl, hs.2.2.2.2.2.2⟩)
        (fun k' hd hne => by rcases hd with hd | hd; exact hd; exact absurd hd hne)
        (fun _ _ _ _ _ _ _ => rfl)
    obtain ⟨h2, hk2⟩ := ih (fbo + 1) _ _ _ h1
    refine ⟨h2.mono ?_, fun scope n => by rw [hk2, keyOf_modifySym]⟩
    intro k hk
    rcases hk with hk | ⟨m, hm, hkm⟩
    · exact Or.inl (Or.inl hk)
    · simp only [List.map_cons, List.mem_cons] at hm
      rcases hm with rfl | hm
      · exact Or.inl (Or.inr hkm)
      · exact Or.inr ⟨m, hm, by rw [keyOf_modifySym]; exact hkm⟩

theorem formalLocations_inv {names : String → List String → Prop} (sc : String) (fr : Nat) :
    ∀ (fs : List X.Formal) (fbo : Int) (t : SymTab), TblInv names t → TblInv names (formalLocations sc fr fs fbo t) := by
  intro fs
  induction fs with
  | nil => intro fbo t h; exact h
  | cons f fs ih =>
    intro fbo t h
    unfold formalLocations
    exact ih _ _ (h.modifySym sc f.name _ (fun _ => rfl))

theorem localDeclLocations_rel (sc : String) (fr : Nat) : ∀ (ds : List ADecl) (c : Nat) (D : SymKey → Prop) (t1 t2 : SymTab),
    TRel D t1 t2 →
    ERel (fun r1 r2 => r1.2 = r2.2 ∧ TRel (fun k => D k ∨ Dof t1 sc (ds.map ADecl.name) k) r1.1 r2.1 ∧
          (∀ scope n, r1.1.keyOf scope n = t1.keyOf scope n))
      (localDeclLocations sc fr ds c t1) (localDeclLocations sc fr ds c t2) := by
  intro ds
  induction ds with
  | nil =>
    intro c D t1 t2 h
    exact ⟨rfl, h.mono (fun k hk => by rcases hk with hk | ⟨m, hm, _⟩; exact hk; simp at hm), fun _ _ => rfl⟩
  | cons d ds ih =>
    intro c D t1 t2 h
    unfold localDeclLocations
    cases d with
    | array n e => simp only [ERel]
    | val n e =>
      simp only
      have h1 : TRel (fun k' => D k' ∨ t1.keyOf sc n = some k')
          (modifySym t1 sc n fun s => { s with stackOffset := -(c : Int), frame := fr })
          (modifySym t2 sc n fun s => { s with stackOffset := -(c : Int), frame := fr }) :=
        h.modifySym sc n _ (fun a b hs => ⟨hs.1, hs.2.1, hs.2.2.1, hs.2.2.2.1, hs.2.2.2.2.1, rfl, hs.2.2.2.2.2.2⟩)
          (fun k' hd hne => by rcases hd with hd | hd; exact hd; exact absurd hd hne)
          (fun _ _ _ _ _ _ _ => rfl)
      refine (ih (c + 1) _ _ _ h1).imp ?_
      intro r1 r2 ⟨e1, e2, e3⟩
      refine ⟨e1, e2.mono ?_, fun scope m => by rw [e3, keyOf_modifySym]⟩
      intro k hk
      rcases hk with hk | ⟨m, hm, hkm⟩
      · exact Or.inl (Or.inl hk)
      · simp only [List.map_cons, List.mem_cons, ADecl.name] at hm
        rcases hm with rfl | hm
        · exact Or.inl (Or.inr hkm)
        · exact Or.inr ⟨m, hm, by rw [keyOf_modifySym]; exact hkm⟩
    | var n =>
      simp only
      have h1 : TRel (fun k' => D k' ∨ t1.keyOf sc n = some k')
          (modifySym t1 sc n fun s => { s with stackOffset := -(c : Int), frame := fr })
          (modifySym t2 sc n fun s => { s with stackOffset := -(c : Int), frame := fr }) :=
        h.modifySym sc n _ (fun a b hs => ⟨hs.1, hs.2.1, hs.2.2.1, hs.2.2.2.1, hs.2.2.2.2.1, rfl, hs.2.2.2.2.2.2⟩)
          (fun k' hd hne => by rcases hd with hd | hd; exact hd; exact absurd hd hne)
          (fun _ _ _ _ _ _ _ => rfl)
      refine (ih (c + 1) _ _ _ h1).imp ?_
      intro r1 r2 ⟨e1, e2, e3⟩
      refine ⟨e1, e2.mono ?_, fun scope m => by rw [e3, keyOf_modifySym]⟩
      intro k hk
      rcases hk with hk | ⟨m, hm, hkm⟩
      · exact Or.inl (Or.inl hk)
      · simp only [List.map_cons, List.mem_cons, ADecl.name] at hm
        rcases hm with rfl | hm
        · exact Or.inl (Or.inr hkm)
        · exact Or.inr ⟨m, hm, by rw [keyOf_modifySym]; exact hkm⟩

theorem localDeclLocations_inv {names : String → List String → Prop} (sc : String) (fr : Nat) :
    ∀ (ds : List ADecl) (c : Nat) (t t' : SymTab) (n : Nat), TblInv names t →
      localDeclLocations sc fr ds c t = .ok (t', n) → TblInv names t' := by
  intro ds
  induction ds with
  | nil =>
    intro c t t' n h he
    simp only [localDeclLocations, pure, Except.pure, Except.ok.injEq, Prod.mk.injEq] at he
    rw [← he.1]; exact h
  | cons d ds ih =>
    intro c t t' n h he
    unfold localDeclLocations at he
    cases d with
    | array m e => simp at he
    | val m e =>
      simp only at he
      exact ih _ _ _ _ (h.modifySym sc _ (fun s => { s with stackOffset := -(c : Int), frame := fr }) (fun _ => rfl)) he
    | var m =>
      simp only at he
      exact ih _ _ _ _ (h.modifySym sc _ (fun s => { s with stackOffset := -(c : Int), frame := fr }) (fun _ => rfl)) he

theorem keyOf_cases (t : SymTab) (scope n : String) (k : SymKey) (h : t.keyOf scope n = some k) :
    (k = (scope, n) ∨ k = ("", n)) ∧ (t.find? k).isSome = true := by
  unfold SymTab.keyOf at h
  cases h1 : t.find? (scope, n) with
  | some a =>
    rw [h1] at h
    simp only [Option.some.injEq] at h
    subst h
    exact ⟨Or.inl rfl, by rw [h1]; rfl⟩
  | none =>
    rw [h1] at h
    simp only at h
    split at h
    · cases h2 : t.find? ("", n) with
      | some a =>
        rw [h2] at h
        simp only [Option.some.injEq] at h
        subst h
        exact ⟨Or.inr rfl, by rw [h2]; rfl⟩
      | none => rw [h2] at h; simp at h
    · simp at h

/-- The relation between the two runs of the `CodeGen` walk. -/
structure SRel (names : String → List String → Prop) (st1 st2 : CGState) : Prop where
  tbl : TRel NoD st1.tbl st2.tbl
  inv : TblInv names st1.tbl
  gs : st1.gs = st2.gs
  go : st1.globalsOffset = st2.globalsOffset
  frames : st1.frames = st2.frames
  instrs : st1.instrs = st2.instrs

theorem cgLocalVars_rel {names : String → List String → Prop} (sc : String) : ∀ (ds : List ADecl) (t1 t2 : SymTab) (gs : GS),
    TRel NoD t1 t2 → TblInv names t1 →
    (cgLocalVars sc ds t1 gs).2 = (cgLocalVars sc ds t2 gs).2 ∧
    TRel NoD (cgLocalVars sc ds t1 gs).1 (cgLocalVars sc ds t2 gs).1 ∧ TblInv names (cgLocalVars sc ds t1 gs).1 := by
  intro ds
  induction ds with
  | nil => intro t1 t2 gs h hi; exact ⟨rfl, h, hi⟩
  | cons d ds ih =>
    intro t1 t2 gs h hi
    unfold cgLocalVars
    cases d with
    | val n e => exact ih t1 t2 gs h hi
    | array n e => exact ih t1 t2 gs h hi
    | var n =>
      simp only
      exact ih _ _ _
        (h.modifySym sc n _ (fun a b hs => ⟨hs.1, hs.2.1, hs.2.2.1, hs.2.2.2.1, hs.2.2.2.2.1, hs.2.2.2.2.2.1, rfl⟩)
          (fun k' hd _ => hd) (fun _ _ hd => absurd hd id))
        (hi.modifySym sc n _ (fun _ => rfl))

theorem cgGlobals_rel {names : String → List String → Prop} : ∀ (ds : List ADecl) (st1 st2 : CGState), SRel names st1 st2 →
    ERel (SRel names) (cgGlobals ds st1) (cgGlobals ds st2) := by
  intro ds
  induction ds with
  | nil => intro st1 st2 h; exact h
  | cons d ds ih =>
    intro st1 st2 h
    unfold cgGlobals
    cases d with
    | val n e => exact ih st1 st2 h
    | var n =>
      simp only
      rcases lookup_rel_cases h.tbl "" n with ⟨a, b, h1, h2, _⟩ | ⟨e, h1, h2⟩
      · rw [h1, h2]
        simp only [bind, Except.bind]
        apply ih
        rw [← h.gs]
        exact ⟨h.tbl.modifySym "" n _ (fun a b hs => ⟨hs.1, hs.2.1, hs.2.2.1, hs.2.2.2.1, hs.2.2.2.2.1, hs.2.2.2.2.2.1, rfl⟩)
            (fun k' hd _ => hd) (fun _ _ hd => absurd hd id),
          h.inv.modifySym "" n _ (fun _ => rfl), rfl, h.go, h.frames, h.instrs⟩
      · rw [h1, h2]
        simp only [bind, Except.bind, ERel]
    | array n e =>
      simp only
      rcases lookup_rel_cases h.tbl "" n with ⟨a, b, h1, h2, _⟩ | ⟨e', h1, h2⟩
      · rw [h1, h2]
        simp only [bind, Except.bind]
        cases hsz : arraySize n e with
        | error er => simp only [ERel]
        | ok size =>
          simp only
          apply ih
          rw [← h.gs, ← h.go]
          exact ⟨h.tbl.modifySym "" n _ (fun a b hs => ⟨hs.1, hs.2.1, hs.2.2.1, hs.2.2.2.1, hs.2.2.2.2.1, hs.2.2.2.2.2.1, rfl⟩)
              (fun k' hd _ => hd) (fun _ _ hd => absurd hd id),
            h.inv.modifySym "" n _ (fun _ => rfl), rfl, rfl, h.frames, h.instrs⟩
      · rw [h1, h2]
        simp only [bind, Except.bind, ERel]

/-- A key is present iff `keyOf` of its own scope and name returns it. -/
theorem find?_isSome_keyOf (t : SymTab) (k : SymKey) : (t.find? k).isSome = (t.keyOf k.1 k.2 == some k) := by
  obtain ⟨k1, k2⟩ := k
  unfold SymTab.keyOf
  simp only
  cases hf : t.find? (k1, k2) with
  | some x => simp
  | none =>
    simp only [Option.isSome_none]
    by_cases hk1 : k1 ≠ ""
    · rw [if_pos hk1]
      cases t.find? ("", k2) with
      | none => rfl
      | some y =>
        simp only
        have : ¬ ((("", k2) : SymKey) = (k1, k2)) := by
          intro e
          apply hk1
          exact (congrArg Prod.fst e).symm
        simp [this]
    · rw [if_neg hk1]; rfl

theorem TRel.lkRel {D : SymKey → Prop} {t1 t2 : SymTab} (h : TRel D t1 t2) (sc : String)
    (hscope : ∀ k a, t1.find? k = some a → a.scope = k.1)
    (hD : ∀ n, (t1.find? (sc, n)).isSome = true → sc ≠ "" → t1.keyOf sc n = some (sc, n) → D (sc, n)) :
    LkRel sc t1 t2 := by
  intro n
  rcases h.lookup sc n with ⟨k, a, b, hk, h1, h2, h3, h4⟩ | ⟨_, h1, h2⟩
  · refine Or.inl ⟨a, b, h1, h2, (h.rel k a b h3 h4).1, fun hne => ?_⟩
    have hsk := hscope k a h3
    obtain ⟨hkc, _⟩ := keyOf_cases t1 sc n k hk
    rcases hkc with rfl | rfl
    · have hsc : a.scope = sc := hsk
      exact (h.rel _ a b h3 h4).2 (hD n (by rw [h3]; rfl) (by rw [← hsc]; exact hne) hk)
    · exact absurd hsk hne
  · exact Or.inr ⟨_, h1, h2⟩

theorem cgProc_rel {names : String → List String → Prop} (i : Nat) (p : AProc) (st1 st2 : CGState) (h : SRel names st1 st2)
    (hkeys : ∀ n, (st1.tbl.find? (p.name, n)).isSome = true → p.name ≠ "" →
      n ∈ p.formals.map X.Formal.name ++ p.locals.map ADecl.name) :
    ERel (SRel names) (cgProc i p st1) (cgProc i p st2) := by
  unfold cgProc
  rcases (lookup_rel_cases h.tbl "" p.name).symm with ⟨e, h1, h2⟩ | ⟨a, b, h1, h2, _⟩
  · rw [h1, h2]; simp only [bind, Except.bind, ERel]
  rw [h1, h2]
  simp only [bind, Except.bind]
  -- the symbol of the procedure itself
  have h0 : TRel NoD (modifySym st1.tbl "" p.name fun s => { s with frame := i })
      (modifySym st2.tbl "" p.name fun s => { s with frame := i }) :=
    h.tbl.modifySym "" p.name _ (fun a b hs => ⟨hs.1, hs.2.1, hs.2.2.1, hs.2.2.2.1, hs.2.2.2.2.1, rfl, hs.2.2.2.2.2.2⟩)
      (fun k' hd _ => hd) (fun _ _ hd => absurd hd id)
  have i0 : TblInv names (modifySym st1.tbl "" p.name fun s => { s with frame := i }) :=
    h.inv.modifySym "" p.name _ (fun _ => rfl)
  obtain ⟨hF, kF⟩ := formalLocations_rel p.name i p.formals
    (1 + ((if p.isFunc then FB_PARAM_OFFSET_FUNC else FB_PARAM_OFFSET_PROC : Nat) : Int)) NoD _ _ h0
  have iF := formalLocations_inv (names := names) p.name i p.formals
    (1 + ((if p.isFunc then FB_PARAM_OFFSET_FUNC else FB_PARAM_OFFSET_PROC : Nat) : Int)) _ i0
  have hL := localDeclLocations_rel p.name i p.locals 0 _ _ _ hF
  revert hL
  cases hl1 : localDeclLocations p.name i p.locals 0 (formalLocations p.name i p.formals
      (1 + ((if p.isFunc then FB_PARAM_OFFSET_FUNC else FB_PARAM_OFFSET_PROC : Nat) : Int))
      (modifySym st1.tbl "" p.name fun s => { s with frame := i })) with
  | error e1 =>
    intro hL
    cases hl2 : localDeclLocations p.name i p.locals 0 (formalLocations p.name i p.formals
        (1 + ((if p.isFunc then FB_PARAM_OFFSET_FUNC else FB_PARAM_OFFSET_PROC : Nat) : Int))
        (modifySym st2.tbl "" p.name fun s => { s with frame := i })) with
    | error e2 => rw [hl2] at hL; simp only [ERel] at hL ⊢; exact hL
    | ok v => rw [hl2] at hL; exact absurd hL id
  | ok r1 =>
    intro hL
    cases hl2 : localDeclLocations p.name i p.locals 0 (formalLocations p.name i p.formals
        (1 + ((if p.isFunc then FB_PARAM_OFFSET_FUNC else FB_PARAM_OFFSET_PROC : Nat) : Int))
        (modifySym st2.tbl "" p.name fun s => { s with frame := i })) with
    | error e2 => rw [hl2] at hL; exact absurd hL id
    | ok r2 =>
      rw [hl2] at hL
      obtain ⟨tbl2a, nl⟩ := r1
      obtain ⟨tbl2b, nl'⟩ := r2
      obtain ⟨hn, hT2, kL⟩ := hL
      simp only at hn hT2 kL
      subst hn
      simp only
      have i2 := localDeclLocations_inv (names := names) p.name i p.locals 0 _ tbl2a nl iF hl1
      -- lookups from the scope of the procedure agree, offsets included
      have hkeep : ∀ k, (tbl2a.find? k).isSome = (st1.tbl.find? k).isSome := by
        intro k
        have e1 : ∀ scope n, tbl2a.keyOf scope n = st1.tbl.keyOf scope n := by
          intro scope n
          rw [kL, kF, keyOf_modifySym]
        rw [find?_isSome_keyOf, find?_isSome_keyOf, e1]
      have hlk : LkRel p.name tbl2a tbl2b := by
        apply hT2.lkRel p.name i2.scope
        intro n hpres hne hk
        have hin := hkeys n (by rw [← hkeep]; exact hpres) hne
        rcases List.mem_append.mp hin with hf | hl
        · exact Or.inl (Or.inr ⟨n, hf, by rw [← kF, ← kL]; exact hk⟩)
        · exact Or.inr ⟨n, hl, by rw [← kL]; exact hk⟩
      have hgen := congrFun (genStmt_rel tbl2a tbl2b p.name i (takeLabel st1.gs).1 hlk p.body)
        { (takeLabel st1.gs).2 with offset := nl, size := nl }
      rw [← h.gs]
      simp only [StateT.run]
      rw [← hgen]
      cases hg : genStmt { tbl := tbl2a, scope := p.name, frame := i, exitLabel := (takeLabel st1.gs).1 } p.body
          { (takeLabel st1.gs).2 with offset := nl, size := nl } with
      | error eg => simp only [ERel]
      | ok v =>
        obtain ⟨body, gs2⟩ := v
        simp only [pure, Except.pure, ERel]
        obtain ⟨c1, c2, c3⟩ := cgLocalVars_rel (names := names) p.name p.locals tbl2a tbl2b gs2
          (hT2.mono (fun k hk => absurd hk id)) i2
        exact ⟨c2, c3, c1, h.go, by simp only; rw [h.frames], by simp only; rw [h.instrs]⟩

theorem cgProcs_rel {names : String → List String → Prop} : ∀ (ps : List AProc) (i : Nat) (st1 st2 : CGState),
    SRel names st1 st2 →
    (∀ p ∈ ps, ∀ ns, names p.name ns → ns = p.formals.map X.Formal.name ++ p.locals.map ADecl.name) →
    ERel (SRel names) (cgProcs ps i st1) (cgProcs ps i st2) := by
  intro ps
  induction ps with
  | nil => intro i st1 st2 h _; exact h
  | cons p ps ih =>
    intro i st1 st2 h hlink
    unfold cgProcs
    have hp := cgProc_rel i p st1 st2 h (by
      intro n hpres hne
      obtain ⟨ns, hns, hn⟩ := h.inv.local_ (p.name, n) hpres hne
      rw [hlink p (by simp) ns hns] at hn
      exact hn)
    exact hp.bind (fun a b hab => ih (i + 1) a b hab (fun q hq => hlink q (List.mem_cons_of_mem _ hq)))

/-- What `LowerDirectives` reads of two generator outputs. -/
structure ORel (cg1 cg2 : CGOut) : Prop where
  instrs : cg1.instrs = cg2.instrs
  data : cg1.data = cg2.data
  frames : cg1.frames = cg2.frames
  go : cg1.globalsOffset = cg2.globalsOffset
  tbl : TRel NoD cg1.tbl cg2.tbl

theorem codeGen_rel {names : String → List String → Prop} (t1 t2 : SymTab) (A : AProgram) (hT : TRel NoD t1 t2)
    (hI : TblInv names t1)
    (hlink : ∀ p ∈ A.procs, ∀ ns, names p.name ns → ns = p.formals.map X.Formal.name ++ p.locals.map ADecl.name) :
    ERel ORel (codeGen t1 A) (codeGen t2 A) := by
  unfold codeGen
  have h0 : SRel names { tbl := t1, instrs := startStub } { tbl := t2, instrs := startStub } :=
    ⟨hT, hI, rfl, rfl, rfl, rfl⟩
  refine (cgGlobals_rel A.globals _ _ h0).bind (fun s1 s2 hg => ?_)
  refine (cgProcs_rel A.procs 0 s1 s2 hg hlink).bind (fun u1 u2 hp => ?_)
  exact ⟨hp.instrs, by simp only; rw [hp.gs], hp.frames, hp.go, hp.tbl⟩

theorem lowerOne_rel (cg1 cg2 : CGOut) (h : ORel cg1 cg2) (d : IDir) : lowerOne cg1 d = lowerOne cg2 d := by
  have hfr : ∀ i, frameOf cg1 i = frameOf cg2 i := fun i => by unfold frameOf; rw [h.frames]
  cases d with
  | dir x => rfl
  | spValue => simp only [lowerOne, h.data, h.go]
  | fb k f o => simp only [lowerOne, hfr]
  | prologue name =>
    simp only [lowerOne]
    have hd := h.tbl.dom ("", name)
    cases h1 : cg1.tbl.find? ("", name) with
    | none =>
      cases h2 : cg2.tbl.find? ("", name) with
      | none => rfl
      | some b => rw [h1, h2] at hd; simp at hd
    | some a =>
      cases h2 : cg2.tbl.find? ("", name) with
      | none => rw [h1, h2] at hd; simp at hd
      | some b =>
        obtain ⟨hs, _⟩ := h.tbl.rel _ a b h1 h2
        simp only [hs.1, hs.2.2.2.2.2.1, hfr]
  | epilogue name =>
    simp only [lowerOne]
    have hd := h.tbl.dom ("", name)
    cases h1 : cg1.tbl.find? ("", name) with
    | none =>
      cases h2 : cg2.tbl.find? ("", name) with
      | none => rfl
      | some b => rw [h1, h2] at hd; simp at hd
    | some a =>
      cases h2 : cg2.tbl.find? ("", name) with
      | none => rw [h1, h2] at hd; simp at hd
      | some b =>
        obtain ⟨hs, _⟩ := h.tbl.rel _ a b h1 h2
        simp only [hs.1, hs.2.2.2.2.2.1, hfr]

theorem lowerCode_rel (cg1 cg2 : CGOut) (h : ORel cg1 cg2) : ∀ (c : Code), lowerCode cg1 c = lowerCode cg2 c := by
  intro c
  induction c with
  | nil => rfl
  | cons d ds ih => simp only [lowerCode, lowerOne_rel cg1 cg2 h, ih]

theorem lower_rel (cg1 cg2 : CGOut) (h : ORel cg1 cg2) : lower cg1 = lower cg2 := by
  unfold lower
  rw [h.instrs]
  exact lowerCode_rel cg1 cg2 h _

/-! ### The whole front half -/

theorem cpDecls_names (tbl : SymTab) (scope : String) (mk : Nat → NodeRef) : ∀ (ds : List X.Decl) (i : Nat) (st : CPState)
    (ds' : List ADecl) (st' : CPState), cpDecls tbl scope mk ds i st = .ok (ds', st') →
    ds'.map ADecl.name = ds.map X.Decl.name := by
  intro ds
  induction ds with
  | nil =>
    intro i st ds' st' h
    simp only [cpDecls, pure, Except.pure, Except.ok.injEq, Prod.mk.injEq] at h
    rw [← h.1]; rfl
  | cons d ds ih =>
    intro i st ds' st' h
    unfold cpDecls at h
    cases d with
    | var n =>
      simp only [bind, Except.bind, pure, Except.pure] at h
      split at h
      · simp at h
      · rename_i w hw
        simp only [Except.ok.injEq, Prod.mk.injEq] at h
        rw [← h.1]
        simp only [List.map_cons, ih _ _ _ _ hw]
        rfl
    | val n e =>
      simp only [bind, Except.bind, pure, Except.pure] at h
      split at h
      · simp at h
      · split at h
        · simp at h
        · split at h
          · simp at h
          · rename_i w hw
            simp only [Except.ok.injEq, Prod.mk.injEq] at h
            rw [← h.1]
            simp only [List.map_cons, ih _ _ _ _ hw]
            rfl
    | array n e =>
      simp only [bind, Except.bind, pure, Except.pure] at h
      split at h
      · simp at h
      · split at h
        · simp at h
        · rename_i w hw
          simp only [Except.ok.injEq, Prod.mk.injEq] at h
          rw [← h.1]
          simp only [List.map_cons, ih _ _ _ _ hw]
          rfl

/-- Name, formals and declared names of a procedure survive `ConstProp`. -/
theorem cpProcs_sig (tbl : SymTab) : ∀ (ps : List X.Proc) (i : Nat) (st : CPState) (ps' : List AProc),
    cpProcs tbl ps i st = .ok ps' →
    ∀ p' ∈ ps', ∃ p ∈ ps, p'.name = p.name ∧ p'.formals = p.formals ∧ p'.locals.map ADecl.name = p.locals.map X.Decl.name := by
  intro ps
  induction ps with
  | nil =>
    intro i st ps' h
    simp only [cpProcs, pure, Except.pure, Except.ok.injEq] at h
    subst h
    intro p' hp'; simp at hp'
  | cons p ps ih =>
    intro i st ps' h
    unfold cpProcs at h
    simp only [bind, Except.bind] at h
    split at h
    · simp at h
    · rename_i v hv
      obtain ⟨locals, st2⟩ := v
      simp only at h
      split at h
      · simp at h
      · rename_i body hb
        split at h
        · simp at h
        · rename_i rest hr
          simp only [pure, Except.pure, Except.ok.injEq] at h
          subst h
          intro p' hp'
          rcases List.mem_cons.mp hp' with rfl | hp'
          · exact ⟨p, by simp, rfl, rfl, cpDecls_names _ _ _ _ _ _ _ _ hv⟩
          · obtain ⟨q, hq, hsig⟩ := ih _ _ _ hr p' hp'
            exact ⟨q, List.mem_cons_of_mem _ hq, hsig⟩

theorem optDecl_name (d : ADecl) : (optDecl d).name = d.name := by cases d <;> rfl

theorem nodup_map_inj {α β : Type} (f : α → β) : ∀ (l : List α), (l.map f).Nodup → ∀ a ∈ l, ∀ b ∈ l, f a = f b → a = b := by
  intro l
  induction l with
  | nil => intro _ a ha; simp at ha
  | cons x xs ih =>
    intro h a ha b hb hab
    simp only [List.map_cons, List.nodup_cons, List.mem_map, not_exists, not_and] at h
    rcases List.mem_cons.mp ha with ha' | ha' <;> rcases List.mem_cons.mp hb with hb' | hb'
    · rw [ha', hb']
    · subst ha'; exact absurd hab.symm (h.1 b hb')
    · subst hb'; exact absurd hab (h.1 a ha')
    · exact ih h.2 a ha' b hb' hab

/-- **C11, compile stage.**  For a program whose procedure names are distinct (any other program is
    rejected with `RedeclaredSymbolError`), everything the front half of the compiler produces -
    intermediate code, data, frames, the lowered and the optimised directive lists, or the
    diagnostic - is the same for any two contents of the uninitialised `Symbol::stackOffset`s. -/
theorem stagesJ_indep (j1 j2 : Int) (P : X.Program) (hnd : (P.procs.map (·.name)).Nodup) :
    ERel (fun s1 s2 => ORel s1.cg s2.cg ∧ s1.lowered = s2.lowered ∧ s1.optimised = s2.optimised)
      (stagesJ j1 P) (stagesJ j2 P) := by
  unfold stagesJ
  refine (createSymbols_rel j1 j2 P).bind (fun t1 t2 ⟨hT, hI⟩ => ?_)
  rw [constProp_rel hT P]
  cases hcp : constProp t2 P with
  | error e => simp only [bind, Except.bind, ERel]
  | ok A =>
    simp only [bind, Except.bind]
    have hlink : ∀ p ∈ (optimise A).procs, ∀ ns, (∃ q ∈ P.procs, q.name = p.name ∧ ns = procNames q) →
        ns = p.formals.map X.Formal.name ++ p.locals.map ADecl.name := by
      intro p' hp' ns ⟨q, hq, hqn, hns⟩
      simp only [optimise, List.mem_map] at hp'
      obtain ⟨p'', hp'', rfl⟩ := hp'
      unfold constProp at hcp
      simp only [bind, Except.bind] at hcp
      split at hcp
      · simp at hcp
      · rename_i v hv
        obtain ⟨globals, st⟩ := v
        simp only at hcp
        split at hcp
        · simp at hcp
        · rename_i procs hprocs
          simp only [pure, Except.pure, Except.ok.injEq] at hcp
          subst hcp
          obtain ⟨p, hp, h1, h2, h3⟩ := cpProcs_sig _ _ _ _ _ hprocs p'' hp''
          have hqp : q = p := nodup_map_inj (fun x : X.Proc => x.name) P.procs hnd q hq p hp (by
            simp only [optProc] at hqn
            rw [hqn, h1])
          subst hqp
          rw [hns]
          simp only [procNames, optProc, h2, List.map_map]
          congr 1
          rw [← h3]
          apply List.map_congr_left
          intro d _
          exact (optDecl_name d).symm
    have hcg := codeGen_rel t1 t2 (optimise A) hT hI hlink
    revert hcg
    cases codeGen t1 (optimise A) <;> cases codeGen t2 (optimise A) <;> simp only [ERel, pure, Except.pure] <;> intro hcg
    · exact hcg
    · exact hcg
    · exact hcg
    · exact ⟨hcg, lower_rel _ _ hcg, by rw [lower_rel _ _ hcg]⟩

theorem compile_eq_compileJ (P : X.Program) : compile P = compileJ 0 P := by
  unfold compile compileDirs compileJ stages
  cases stagesJ 0 P <;> rfl

/-- **C11, compile stage, end to end**: the assembled image (or the diagnostic) does not depend on
    the content of the uninitialised `Symbol::stackOffset`s. -/
theorem compileJ_indep (j1 j2 : Int) (P : X.Program) (hnd : (P.procs.map (·.name)).Nodup) :
    compileJ j1 P = compileJ j2 P := by
  have h := stagesJ_indep j1 j2 P hnd
  unfold compileJ
  revert h
  cases stagesJ j1 P <;> cases stagesJ j2 P <;> simp only [ERel] <;> intro h
  · rw [h]
  · exact h.elim
  · exact h.elim
  · simp only [bind, Except.bind]
    rw [h.2.2]

theorem compileJ_eq_compile (j : Int) (P : X.Program) (hnd : (P.procs.map (·.name)).Nodup) :
    compileJ j P = compile P := by
  rw [compile_eq_compileJ]; exact compileJ_indep j 0 P hnd

end Hex.Xcmp
