import HexVerif.Xcmp.Compile
import HexVerif.Lemmas.XcmpGenStmt
/-!
  C11, compile stage: the output of the compiler model does not depend on the content `j` of the
  uninitialised `Symbol::stackOffset` (`createSymbolsJ`, `stagesJ`): every symbol whose offset the
  generators read - a symbol of the scope of the procedure being generated - had it set by
  `FormalLocations` / `LocalDeclLocations` before.
-/
namespace Hex.Xcmp
open Hex.Asm (Dir LabelKind)

/-! ### Tables up to `stackOffset` -/

/-- Equal but for `stackOffset`. -/
def SEq (a b : Symbol) : Prop :=
  a.type = b.type ∧ a.node = b.node ∧ a.isValDecl = b.isValDecl ∧ a.scope = b.scope ∧ a.name = b.name ∧
  a.frame = b.frame ∧ a.globalLabel = b.globalLabel

theorem SEq.refl (a : Symbol) : SEq a a := ⟨rfl, rfl, rfl, rfl, rfl, rfl, rfl⟩

theorem SEq.eq {a b : Symbol} (h : SEq a b) (ho : a.stackOffset = b.stackOffset) : a = b := by
  obtain ⟨h1, h2, h3, h4, h5, h6, h7⟩ := h
  cases a; cases b
  simp only at h1 h2 h3 h4 h5 h6 h7 ho
  subst h1; subst h2; subst h3; subst h4; subst h5; subst h6; subst h7; subst ho
  rfl

/-- Two tables with the same keys whose symbols agree up to `stackOffset`, and fully on the keys in `D`. -/
structure TRel (D : SymKey → Prop) (t1 t2 : SymTab) : Prop where
  dom : ∀ k, (t1.find? k).isSome = (t2.find? k).isSome
  rel : ∀ k a b, t1.find? k = some a → t2.find? k = some b → SEq a b ∧ (D k → a.stackOffset = b.stackOffset)

theorem TRel.mono {D D' : SymKey → Prop} {t1 t2 : SymTab} (h : TRel D t1 t2) (hd : ∀ k, D' k → D k) : TRel D' t1 t2 :=
  ⟨h.dom, fun k a b h1 h2 => ⟨(h.rel k a b h1 h2).1, fun hk => (h.rel k a b h1 h2).2 (hd k hk)⟩⟩

theorem find?_cons (k k' : SymKey) (s : Symbol) (t : SymTab) :
    SymTab.find? ((k', s) :: t) k = if k' = k then some s else SymTab.find? t k := by
  conv => lhs; unfold SymTab.find?

theorem find?_modify : ∀ (t : SymTab) (k k' : SymKey) (f : Symbol → Symbol),
    (t.modify k f).find? k' = if k' = k then (t.find? k').map f else t.find? k' := by
  intro t
  induction t with
  | nil => intro k k' f; simp [SymTab.modify, SymTab.find?]
  | cons e rest ih =>
    intro k k' f
    obtain ⟨k0, s⟩ := e
    unfold SymTab.modify
    by_cases h0 : k0 = k
    · rw [if_pos h0, find?_cons, find?_cons]
      by_cases h1 : k0 = k'
      · rw [if_pos h1, if_pos h1]
        have : k' = k := by rw [← h1, h0]
        rw [if_pos this]; rfl
      · rw [if_neg h1, if_neg h1]
        have : ¬ k' = k := by intro e; exact h1 (by rw [h0, e])
        rw [if_neg this]
    · rw [if_neg h0, find?_cons, find?_cons, ih]
      by_cases h1 : k0 = k'
      · rw [if_pos h1, if_pos h1]
        have : ¬ k' = k := by intro e; exact h0 (by rw [h1, e])
        rw [if_neg this]
      · rw [if_neg h1, if_neg h1]

theorem TRel.keyOf {D : SymKey → Prop} {t1 t2 : SymTab} (h : TRel D t1 t2) (scope n : String) :
    t1.keyOf scope n = t2.keyOf scope n := by
  unfold SymTab.keyOf
  have h1 := h.dom (scope, n)
  have h2 := h.dom ("", n)
  cases ha : t1.find? (scope, n) with
  | some a =>
    cases hb : t2.find? (scope, n) with
    | some b => rfl
    | none => rw [ha, hb] at h1; simp at h1
  | none =>
    cases hb : t2.find? (scope, n) with
    | some b => rw [ha, hb] at h1; simp at h1
    | none =>
      simp only
      cases hc : t1.find? ("", n) with
      | some a =>
        cases hd : t2.find? ("", n) with
        | some b => rfl
        | none => rw [hc, hd] at h2; simp at h2
      | none =>
        cases hd : t2.find? ("", n) with
        | some b => rw [hc, hd] at h2; simp at h2
        | none => rfl

/-- What `lookup` returns in related tables. -/
theorem TRel.lookup {D : SymKey → Prop} {t1 t2 : SymTab} (h : TRel D t1 t2) (scope n : String) :
    (∃ k a b, t1.keyOf scope n = some k ∧ t1.lookup scope n = .ok a ∧ t2.lookup scope n = .ok b ∧
        t1.find? k = some a ∧ t2.find? k = some b) ∨
    (t1.keyOf scope n = none ∧ t1.lookup scope n = .error (.unknownSymbol n) ∧ t2.lookup scope n = .error (.unknownSymbol n)) := by
  unfold SymTab.keyOf SymTab.lookup
  have h1 := h.dom (scope, n)
  have h2 := h.dom ("", n)
  cases ha : t1.find? (scope, n) with
  | some a =>
    cases hb : t2.find? (scope, n) with
    | some b => exact Or.inl ⟨_, a, b, rfl, rfl, rfl, ha, hb⟩
    | none => rw [ha, hb] at h1; simp at h1
  | none =>
    cases hb : t2.find? (scope, n) with
    | some b => rw [ha, hb] at h1; simp at h1
    | none =>
      simp only
      by_cases hs : scope ≠ ""
      · rw [if_pos hs, if_pos hs, if_pos hs]
        cases hc : t1.find? ("", n) with
        | some a =>
          cases hd : t2.find? ("", n) with
          | some b => exact Or.inl ⟨_, a, b, rfl, rfl, rfl, hc, hd⟩
          | none => rw [hc, hd] at h2; simp at h2
        | none =>
          cases hd : t2.find? ("", n) with
          | some b => rw [hc, hd] at h2; simp at h2
          | none => exact Or.inr ⟨rfl, rfl, rfl⟩
      · rw [if_neg hs, if_neg hs, if_neg hs]
        exact Or.inr ⟨rfl, rfl, rfl⟩

/-- The same update of the same key in related tables. -/
theorem TRel.modify {D D' : SymKey → Prop} {t1 t2 : SymTab} (h : TRel D t1 t2) (k : SymKey) (f : Symbol → Symbol)
    (hf : ∀ a b, SEq a b → SEq (f a) (f b))
    (hD : ∀ k', D' k' → k' ≠ k → D k')
    (hk : D' k → ∀ a b, SEq a b → (D k → a.stackOffset = b.stackOffset) → (f a).stackOffset = (f b).stackOffset) :
    TRel D' (t1.modify k f) (t2.modify k f) := by
  constructor
  · intro k'
    rw [find?_modify, find?_modify]
    by_cases hkk : k' = k
    · rw [if_pos hkk, if_pos hkk]
      simp only [Option.isSome_map]
      exact h.dom k'
    · rw [if_neg hkk, if_neg hkk]
      exact h.dom k'
  · intro k' a b ha hb
    rw [find?_modify] at ha hb
    by_cases hkk : k' = k
    · rw [if_pos hkk] at ha hb
      cases h1 : t1.find? k' with
      | none => rw [h1] at ha; simp at ha
      | some a0 =>
        cases h2 : t2.find? k' with
        | none => rw [h2] at hb; simp at hb
        | some b0 =>
          rw [h1] at ha; rw [h2] at hb
          simp only [Option.map_some, Option.some.injEq] at ha hb
          subst ha; subst hb
          obtain ⟨hs, ho⟩ := h.rel k' a0 b0 h1 h2
          refine ⟨hf a0 b0 hs, fun hd => ?_⟩
          subst hkk
          exact hk hd a0 b0 hs ho
    · rw [if_neg hkk] at ha hb
      obtain ⟨hs, ho⟩ := h.rel k' a b ha hb
      exact ⟨hs, fun hd => ho (hD k' hd hkk)⟩

theorem TRel.modifySym {D D' : SymKey → Prop} {t1 t2 : SymTab} (h : TRel D t1 t2) (scope n : String) (f : Symbol → Symbol)
    (hf : ∀ a b, SEq a b → SEq (f a) (f b))
    (hD : ∀ k', D' k' → t1.keyOf scope n ≠ some k' → D k')
    (hk : ∀ k, t1.keyOf scope n = some k → D' k → ∀ a b, SEq a b → (D k → a.stackOffset = b.stackOffset) →
      (f a).stackOffset = (f b).stackOffset) :
    TRel D' (modifySym t1 scope n f) (modifySym t2 scope n f) := by
  unfold Xcmp.modifySym
  rw [← h.keyOf scope n]
  cases hk0 : t1.keyOf scope n with
  | none =>
    simp only
    exact ⟨h.dom, fun k a b h1 h2 => ⟨(h.rel k a b h1 h2).1, fun hd => (h.rel k a b h1 h2).2 (hD k hd (by rw [hk0]; simp))⟩⟩
  | some k =>
    simp only
    exact h.modify k f hf (fun k' hd hne => hD k' hd (by rw [hk0]; intro e; exact hne (Option.some.inj e).symm))
      (hk k hk0)

/-! ### The generators see a table only through `lookup`, and `stackOffset` only of local symbols -/

/-- What the generators of a procedure need of two tables. -/
def LkRel (scope : String) (t1 t2 : SymTab) : Prop :=
  ∀ n, (∃ a b, t1.lookup scope n = .ok a ∧ t2.lookup scope n = .ok b ∧ SEq a b ∧
          (a.scope ≠ "" → a.stackOffset = b.stackOffset)) ∨
       (∃ e, t1.lookup scope n = .error e ∧ t2.lookup scope n = .error e)

theorem genVar_rel (reg : Reg) (a b : Symbol) (h : SEq a b) (ho : a.scope ≠ "" → a.stackOffset = b.stackOffset) :
    genVar reg a = genVar reg b := by
  obtain ⟨h1, h2, h3, h4, h5, h6, h7⟩ := h
  unfold genVar
  by_cases hs : a.scope = ""
  · rw [if_pos hs, if_pos (by rw [← h4]; exact hs), h7]
  · rw [if_neg hs, if_neg (by rw [← h4]; exact hs), h6, ho hs]

section
variable (t1 t2 : SymTab) (sc : String) (fr : Nat) (xl : String) (hrel : LkRel sc t1 t2)

/-- A table lookup lifted into the generator monad, followed by a continuation that cannot tell
    related symbols apart. -/
theorem lookup_bind_rel {β : Type} (n : String) (k1 k2 : Symbol → M β) (hrel : LkRel sc t1 t2)
    (hk : ∀ a b, SEq a b → (a.scope ≠ "" → a.stackOffset = b.stackOffset) → k1 a = k2 b) :
    ((do let sym ← (t1.lookup sc n : Except CDiag Symbol); k1 sym) : M β) =
    (do let sym ← (t2.lookup sc n : Except CDiag Symbol); k2 sym) := by
  rcases hrel n with ⟨a, b, h1, h2, hs, ho⟩ | ⟨e, h1, h2⟩
  · rw [h1, h2]
    funext gs
    simp only [bind, StateT.bind, liftM, monadLift, MonadLift.monadLift, StateT.lift, Except.bind, pure, Except.pure]
    rw [hk a b hs ho]
  · rw [h1, h2]
    funext gs
    simp only [bind, StateT.bind, liftM, monadLift, MonadLift.monadLift, StateT.lift, Except.bind]

end

section
variable (t1 t2 : SymTab) (sc : String) (fr : Nat) (xl : String)

theorem exprCallKind_rel (hrel : LkRel sc t1 t2) (sys : Int) (f : String) :
    exprCallKind ⟨t1, sc, fr, xl⟩ sys f = exprCallKind ⟨t2, sc, fr, xl⟩ sys f := by
  unfold exprCallKind
  by_cases hs : sys ≠ -1
  · rw [if_pos hs, if_pos hs]
  · rw [if_neg hs, if_neg hs]
    exact lookup_bind_rel t1 t2 sc f _ _ hrel (fun a b h _ => by rw [h.1])

/-- **Expression code depends on the table only up to `LkRel`.** -/
theorem genExpr_rel (hrel : LkRel sc t1 t2) (e : AExpr) (reg : Reg) :
    genExpr ⟨t1, sc, fr, xl⟩ e reg = genExpr ⟨t2, sc, fr, xl⟩ e reg := by
  apply genExpr.induct
    (motive_1 := fun e reg => genExpr ⟨t1, sc, fr, xl⟩ e reg = genExpr ⟨t2, sc, fr, xl⟩ e reg)
    (motive_2 := fun args p s => loadActuals ⟨t1, sc, fr, xl⟩ args p s = loadActuals ⟨t2, sc, fr, xl⟩ args p s)
    (motive_3 := fun args => genCallActuals ⟨t1, sc, fr, xl⟩ args = genCallActuals ⟨t2, sc, fr, xl⟩ args)
  -- num, bool, str, name
  · intro v c reg; rw [genExpr_num, genExpr_num]
  · intro b c reg; rw [genExpr_bool, genExpr_bool]
  · intro bs reg; rw [genExpr_str, genExpr_str]
  · intro n reg v; rw [genExpr_name_const, genExpr_name_const]
  · intro n reg
    unfold genExpr
    exact lookup_bind_rel t1 t2 sc n _ _ hrel (fun a b h ho => by rw [genVar_rel reg a b h ho])
  -- sub
  · intro n i x ih
    unfold genExpr
    refine lookup_bind_rel t1 t2 sc n _ _ hrel (fun a b h ho => ?_)
    rw [genVar_rel .A a b h ho, genVar_rel .B a b h ho, ih]
  -- call
  · intro sys f args x ih3 ih2
    unfold genExpr
    rw [exprCallKind_rel t1 t2 sc fr xl hrel, ih3]
    congr
    funext kind
    congr
    funext p s
    exact ih2 p s
  -- un const, not, neg
  · intro op e reg v; rw [genExpr_un_const, genExpr_un_const]
  · intro e reg ih
    unfold genExpr
    rw [ih]
  · intro e reg
    unfold genExpr
    rfl
  -- bin const
  · intro op l r reg v; rw [genExpr_bin_const, genExpr_bin_const]
  -- plus, minus
  · intro l r reg ihl ihra ihrb
    unfold genExpr
    simp only [binopOperands, ihl, ihra, ihrb]
  · intro l r reg ihl ihra ihrb
    unfold genExpr
    simp only [binopOperands, ihl, ihra, ihrb]
  -- and, or
  · intro l r reg ihl ihr
    unfold genExpr
    rw [ihl, ihr]
  · intro l r reg ihl ihr
    unfold genExpr
    rw [ihl, ihr]
  -- eq, ls
  · intro l r reg ihl ihra ihrb
    unfold genExpr
    simp only [binopOperands, ihl, ihra, ihrb]
  · intro l r reg ihl ihra ihrb
    unfold genExpr
    simp only [binopOperands, ihl, ihra, ihrb]
  -- other operators
  · intro op l r reg h1 h2 h3 h4 h5 h6
    unfold genExpr
    cases op <;> first | (exact absurd rfl h1) | (exact absurd rfl h2) | (exact absurd rfl h3) | (exact absurd rfl h4)
                       | (exact absurd rfl h5) | (exact absurd rfl h6) | rfl
  -- loadActuals
  · intro p s; unfold loadActuals; rfl
  · intro arg rest p s hc ih
    unfold loadActuals
    simp only [hc, if_true, ih]
  · intro arg rest p s hc ih1 ih
    unfold loadActuals
    simp only [hc, Bool.false_eq_true, if_false, ih1, ih]
  -- genCallActuals
  · unfold genCallActuals; rfl
  · intro a as hc ih1 ih
    unfold genCallActuals
    simp only [hc, if_true, ih1, ih]
  · intro a as hc ih
    unfold genCallActuals
    simp only [hc, Bool.false_eq_true, if_false, ih]

end

section
variable (t1 t2 : SymTab) (sc : String) (fr : Nat) (xl : String)

theorem loadActuals_rel (hrel : LkRel sc t1 t2) : ∀ (args : List AExpr) (p s : Nat),
    loadActuals ⟨t1, sc, fr, xl⟩ args p s = loadActuals ⟨t2, sc, fr, xl⟩ args p s := by
  intro args
  induction args with
  | nil => intro p s; unfold loadActuals; rfl
  | cons a as ih =>
    intro p s
    unfold loadActuals
    simp only [ih, genExpr_rel t1 t2 sc fr xl hrel]

theorem genCallActuals_rel (hrel : LkRel sc t1 t2) : ∀ (args : List AExpr),
    genCallActuals ⟨t1, sc, fr, xl⟩ args = genCallActuals ⟨t2, sc, fr, xl⟩ args := by
  intro args
  induction args with
  | nil => unfold genCallActuals; rfl
  | cons a as ih =>
    unfold genCallActuals
    simp only [ih, genExpr_rel t1 t2 sc fr xl hrel]

/-- **Statement code depends on the table only up to `LkRel`.** -/
theorem genStmt_rel (hrel : LkRel sc t1 t2) (s : AStmt) :
    genStmt ⟨t1, sc, fr, xl⟩ s = genStmt ⟨t2, sc, fr, xl⟩ s := by
  apply genStmt.induct
    (motive_1 := fun s => genStmt ⟨t1, sc, fr, xl⟩ s = genStmt ⟨t2, sc, fr, xl⟩ s)
    (motive_2 := fun ss => genStmts ⟨t1, sc, fr, xl⟩ ss = genStmts ⟨t2, sc, fr, xl⟩ ss)
  · unfold genStmt; rfl
  · unfold genStmt; rfl
  · intro e
    unfold genStmt
    rw [genExpr_rel t1 t2 sc fr xl hrel]
  · intro cond t e hs hc
    unfold genStmt
    simp only [hs, hc, and_self, if_true, genExpr_rel t1 t2 sc fr xl hrel]
  · intro cond t e hs hc
    unfold genStmt
    simp only [hs, hc, and_self, if_true, Bool.false_eq_true, if_false]
  · intro cond t e hs hes iht
    unfold genStmt
    simp only [hs, hes, if_false, if_true, iht, genExpr_rel t1 t2 sc fr xl hrel, Bool.false_eq_true, and_false, and_true, true_and, false_and]
  · intro cond t e hs hes hts ihe
    unfold genStmt
    simp only [hs, hes, hts, if_false, if_true, ihe, genExpr_rel t1 t2 sc fr xl hrel, Bool.false_eq_true, and_false, and_true, true_and, false_and]
  · intro cond t e hs hes hts iht ihe
    unfold genStmt
    simp only [hs, hes, hts, if_false, if_true, iht, ihe, genExpr_rel t1 t2 sc fr xl hrel, Bool.false_eq_true, and_false, and_true, true_and, false_and]
  · intro cond body ihb
    unfold genStmt
    simp only [ihb, genExpr_rel t1 t2 sc fr xl hrel]
  · intro ss ih
    unfold genStmt
    exact ih
  · intro n e
    unfold genStmt
    rw [genExpr_rel t1 t2 sc fr xl hrel]
    congr
    funext c
    refine lookup_bind_rel t1 t2 sc n _ _ hrel (fun a b h ho => ?_)
    obtain ⟨h1, h2, h3, h4, h5, h6, h7⟩ := h
    by_cases hsc : a.scope = ""
    · rw [if_pos hsc, if_pos (by rw [← h4]; exact hsc), h7]
    · rw [if_neg hsc, if_neg (by rw [← h4]; exact hsc), ho hsc]
  · intro n i e
    unfold genStmt
    rw [genExpr_rel t1 t2 sc fr xl hrel i]
    congr
    funext ci
    refine lookup_bind_rel t1 t2 sc n _ _ hrel (fun a b h ho => ?_)
    rw [genVar_rel .B a b h ho, genExpr_rel t1 t2 sc fr xl hrel e]
  · intro sys f args
    unfold genStmt
    simp only [genCallActuals_rel t1 t2 sc fr xl hrel, loadActuals_rel t1 t2 sc fr xl hrel]
  · unfold genStmts; rfl
  · intro s ss ih1 ih2
    unfold genStmts
    rw [ih1, ih2]

end

end Hex.Xcmp
