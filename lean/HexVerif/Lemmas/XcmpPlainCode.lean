import HexVerif.Xcmp.Compile
import HexVerif.Lemmas.XcmpPeepLabels
/-!
  The code the expression and statement generators emit for a procedure BODY contains no
  procedure-level directive: no PROLOGUE / EPILOGUE / SP_VALUE marker and no FUNC / PROC label -
  only instructions, frame-base accesses and plain (generated) labels.  So the FUNC/PROC labels of a
  compiled program come from the prologue markers `cgProc` puts around each body, one per procedure.
-/
namespace Hex.Xcmp
open Hex.Asm (Dir LabelKind)

def plainI : IDir → Bool
  | .dir (.label k _) => k == .plain
  | .dir _ => true
  | .fb _ _ _ => true
  | _ => false

def Plain (c : Code) : Prop := ∀ d ∈ c, plainI d = true

theorem Plain.nil : Plain [] := fun _ h => by cases h
theorem Plain.append {a b : Code} (ha : Plain a) (hb : Plain b) : Plain (a ++ b) := by
  intro d hd; rcases List.mem_append.mp hd with h | h
  · exact ha d h
  · exact hb d h
theorem Plain.cons {d : IDir} {c : Code} (hd : plainI d = true) (hc : Plain c) : Plain (d :: c) := by
  intro x hx; rcases List.mem_cons.mp hx with rfl | h
  · exact hd
  · exact hc x h
theorem plain_of_all {c : Code} (h : c.all plainI = true) : Plain c := by
  intro d hd; exact List.all_eq_true.mp h d hd

/-- A generator whose result is plain code. -/
structure PC (m : M Code) : Prop where
  h : ∀ s c s', m s = .ok (c, s') → Plain c

theorem okM_bind {α β : Type} {m : M α} {f : α → M β} {s s' : GS} {b : β}
    (h : (m >>= f) s = .ok (b, s')) : ∃ a s1, m s = .ok (a, s1) ∧ f a s1 = .ok (b, s') := by
  change StateT.bind m f s = _ at h
  unfold StateT.bind at h
  cases hm : m s with
  | error e => rw [hm] at h; cases h
  | ok p => rw [hm] at h; exact ⟨p.1, p.2, rfl, h⟩

theorem PC.pure {c : Code} (hc : Plain c) : PC (pure c : M Code) :=
  ⟨fun s c' s' h => by cases h; exact hc⟩

/-- bind over a generator of plain code -/
theorem PC.bindC {m : M Code} {f : Code → M Code} (hm : PC m) (hf : ∀ c, Plain c → PC (f c)) : PC (m >>= f) :=
  ⟨fun s c s' h => by
    obtain ⟨a, s1, h1, h2⟩ := okM_bind h
    exact (hf a (hm.h s a s1 h1)).h s1 c s' h2⟩

/-- bind over anything else -/
theorem PC.bindA {α : Type} {m : M α} {f : α → M Code} (hf : ∀ a, PC (f a)) : PC (m >>= f) :=
  ⟨fun s c s' h => by
    obtain ⟨a, s1, _, h2⟩ := okM_bind h
    exact (hf a).h s1 c s' h2⟩

theorem PC.ite {c : Prop} [Decidable c] {a b : M Code} (ha : PC a) (hb : PC b) : PC (if c then a else b) := by
  split <;> assumption

theorem genConst_pc (reg : Reg) (v : CInt) : PC (genConst reg v) := by
  unfold genConst
  apply PC.ite
  · cases reg <;> exact PC.pure (plain_of_all rfl)
  · apply PC.bindA; intro l
    cases reg <;> exact PC.pure (plain_of_all rfl)

theorem genString_pc (reg : Reg) (bs : List Byte) : PC (genString reg bs) := by
  unfold genString
  apply PC.bindA; intro s
  apply PC.bindA; intro _
  cases reg <;> exact PC.pure (plain_of_all rfl)

theorem genVar_plain (reg : Reg) (sym : Symbol) : Plain (genVar reg sym) := by
  unfold genVar
  split <;> cases reg <;> exact plain_of_all rfl

theorem binopOperands_pc (ctx : Ctx) (b : Bool) {gl gra grb : M Code} (hl : PC gl) (hra : PC gra) (hrb : PC grb) :
    PC (binopOperands ctx b gl gra grb) := by
  unfold binopOperands
  apply PC.ite
  · apply PC.bindA; intro _
    apply PC.bindC hra; intro cr hcr
    apply PC.bindA; intro _
    apply PC.bindA; intro _
    apply PC.bindC hl; intro cl hcl
    apply PC.bindA; intro _
    exact PC.pure (((hcr.append (plain_of_all rfl)).append hcl).append (plain_of_all rfl))
  · apply PC.bindC hl; intro cl hcl
    apply PC.bindC hrb; intro cr hcr
    exact PC.pure (hcl.append hcr)

theorem eqOperand_pc (lz rz : Bool) {gl gr go : M Code} (hl : PC gl) (hr : PC gr) (ho : PC go) :
    PC (eqOperand lz rz gl gr go) := by
  unfold eqOperand
  apply PC.ite hr
  apply PC.ite hl
  apply PC.bindC ho; intro c hc
  exact PC.pure (hc.append (plain_of_all rfl))

theorem selectTail_plain (br : String → IDir) (hbr : ∀ l, plainI (br l) = true) (t e : String) : Plain (selectTail br t e) := by
  unfold selectTail
  exact Plain.cons (hbr t) (plain_of_all rfl)

theorem callTailM_pc (kind : CallKind) : PC (callTailM kind) := by
  unfold callTailM
  split
  · exact PC.pure (plain_of_all rfl)
  · apply PC.bindA; intro _; exact PC.pure (plain_of_all rfl)
  · apply PC.bindA; intro _; exact PC.pure (plain_of_all rfl)

theorem callSeq_pc (kind : CallKind) (nargs ncalls : Nat) {actuals : M Code} {load : Nat → Nat → M Code}
    (ha : PC actuals) (hl : ∀ p s, PC (load p s)) : PC (callSeq kind nargs ncalls actuals load) := by
  unfold callSeq
  apply PC.bindA; intro _
  apply PC.bindA; intro _
  apply PC.bindA; intro _
  apply PC.bindC ha; intro c1 h1
  apply PC.bindA; intro _
  apply PC.bindA; intro _
  apply PC.bindA; intro _
  apply PC.bindC (hl _ _); intro c2 h2
  apply PC.bindA; intro _
  apply PC.bindA; intro _
  apply PC.bindA; intro _
  apply PC.bindA; intro _
  apply PC.bindC (callTailM_pc _); intro c3 h3
  apply PC.bindA; intro _
  exact PC.pure ((h1.append h2).append h3)

theorem genExpr_pc (ctx : Ctx) (e : AExpr) (reg : Reg) : PC (genExpr ctx e reg) := by
  apply genExpr.induct
    (motive_1 := fun e reg => PC (genExpr ctx e reg))
    (motive_2 := fun args p s => PC (loadActuals ctx args p s))
    (motive_3 := fun args => PC (genCallActuals ctx args))
  · intros; unfold genExpr; exact genConst_pc _ _
  · intros; unfold genExpr; exact genConst_pc _ _
  · intros; unfold genExpr; exact genString_pc _ _
  · intros; unfold genExpr; exact genConst_pc _ _
  · intros; unfold genExpr; apply PC.bindA; intro sym; exact PC.pure (genVar_plain _ _)
  · intro n i x ih
    unfold genExpr
    apply PC.bindA; intro sym
    split
    · exact PC.pure ((genVar_plain _ _).append (plain_of_all rfl))
    · apply PC.bindC ih; intro ci hci
      exact PC.pure ((hci.append (genVar_plain _ _)).append (plain_of_all rfl))
  · intro sys f args x ih3 ih2
    unfold genExpr
    apply PC.bindA; intro _
    exact callSeq_pc _ _ _ ih3 ih2
  · intros; unfold genExpr; exact genConst_pc _ _
  · intro e reg ih
    unfold genExpr
    apply PC.bindA; intro _
    apply PC.bindA; intro _
    apply PC.bindC ih; intro c hc
    exact PC.pure (hc.append (selectTail_plain _ (fun _ => rfl) _ _))
  · intros; unfold genExpr; exact PC.pure Plain.nil
  · intros; unfold genExpr; exact genConst_pc _ _
  · intro l r reg ihl ihra ihrb
    unfold genExpr
    apply PC.bindC (binopOperands_pc _ _ ihl ihra ihrb); intro c hc
    exact PC.pure (hc.append (plain_of_all rfl))
  · intro l r reg ihl ihra ihrb
    unfold genExpr
    apply PC.bindC (binopOperands_pc _ _ ihl ihra ihrb); intro c hc
    exact PC.pure (hc.append (plain_of_all rfl))
  · intro l r reg ihl ihr
    unfold genExpr
    apply PC.bindA; intro _
    apply PC.bindC ihl; intro cl hcl
    apply PC.bindC ihr; intro cr hcr
    exact PC.pure (((hcl.append (plain_of_all rfl)).append hcr).append (plain_of_all rfl))
  · intro l r reg ihl ihr
    unfold genExpr
    apply PC.bindA; intro _
    apply PC.bindA; intro _
    apply PC.bindC ihl; intro cl hcl
    apply PC.bindC ihr; intro cr hcr
    exact PC.pure (((hcl.append (plain_of_all rfl)).append hcr).append (plain_of_all rfl))
  · intro l r reg ihl ihra ihrb
    unfold genExpr
    apply PC.bindC (eqOperand_pc _ _ ihl ihra (binopOperands_pc _ _ ihl ihra ihrb)); intro c hc
    apply PC.bindA; intro _
    apply PC.bindA; intro _
    exact PC.pure (hc.append (selectTail_plain _ (fun _ => rfl) _ _))
  · intro l r reg ihl ihra ihrb
    unfold genExpr
    apply PC.bindC (eqOperand_pc _ _ ihl ihra (binopOperands_pc _ _ ihl ihra ihrb)); intro c hc
    apply PC.bindA; intro _
    apply PC.bindA; intro _
    exact PC.pure (hc.append (selectTail_plain _ (fun _ => rfl) _ _))
  · intro op l r reg h1 h2 h3 h4 h5 h6
    unfold genExpr
    cases op <;> first | exact PC.pure Plain.nil | (exfalso; first | exact h1 rfl | exact h2 rfl | exact h3 rfl | exact h4 rfl | exact h5 rfl | exact h6 rfl)
  · intros; unfold loadActuals; exact PC.pure Plain.nil
  · intro arg rest p s h ih
    unfold loadActuals
    rw [if_pos h]
    apply PC.bindC ih; intro cs hcs
    exact PC.pure ((plain_of_all rfl).append hcs)
  · intro arg rest p s h ihe ih
    unfold loadActuals
    rw [if_neg h]
    apply PC.bindC ihe; intro c hc
    apply PC.bindC ih; intro cs hcs
    exact PC.pure ((hc.append (plain_of_all rfl)).append hcs)
  · unfold genCallActuals; exact PC.pure Plain.nil
  · intro a as h ihe ih
    unfold genCallActuals
    rw [if_pos h]
    apply PC.bindC ihe; intro c hc
    apply PC.bindA; intro _
    apply PC.bindA; intro _
    apply PC.bindC ih; intro cs hcs
    exact PC.pure ((hc.append (plain_of_all rfl)).append hcs)
  · intro a as h ih
    unfold genCallActuals
    rw [if_neg h]
    exact ih

theorem genCallActuals_pc (ctx : Ctx) : ∀ args, PC (genCallActuals ctx args)
  | [] => by unfold genCallActuals; exact PC.pure Plain.nil
  | a :: as => by
    unfold genCallActuals
    apply PC.ite
    · apply PC.bindC (genExpr_pc ctx a .A); intro c hc
      apply PC.bindA; intro _
      apply PC.bindA; intro _
      apply PC.bindC (genCallActuals_pc ctx as); intro cs hcs
      exact PC.pure ((hc.append (plain_of_all rfl)).append hcs)
    · exact genCallActuals_pc ctx as

theorem loadActuals_pc (ctx : Ctx) : ∀ args p s, PC (loadActuals ctx args p s)
  | [], _, _ => by unfold loadActuals; exact PC.pure Plain.nil
  | a :: as, p, s => by
    unfold loadActuals
    apply PC.ite
    · apply PC.bindC (loadActuals_pc ctx as _ _); intro cs hcs
      exact PC.pure ((plain_of_all rfl).append hcs)
    · apply PC.bindC (genExpr_pc ctx a .A); intro c hc
      apply PC.bindC (loadActuals_pc ctx as _ _); intro cs hcs
      exact PC.pure ((hc.append (plain_of_all rfl)).append hcs)

/-- **Statements emit plain code only.** -/
theorem genStmt_pc (ctx : Ctx) (st : AStmt) : PC (genStmt ctx st) := by
  apply genStmt.induct
    (motive_1 := fun st => PC (genStmt ctx st))
    (motive_2 := fun ss => PC (genStmts ctx ss))
  · unfold genStmt; exact PC.pure Plain.nil
  · unfold genStmt; exact PC.pure (plain_of_all rfl)
  · intro e; unfold genStmt
    apply PC.bindC (genExpr_pc ctx e .A); intro c hc
    exact PC.pure (hc.append (plain_of_all rfl))
  · intro c t e h1 h2; unfold genStmt; rw [if_pos h1, if_pos h2]; exact genExpr_pc ctx c .A
  · intro c t e h1 h2; unfold genStmt; rw [if_pos h1, if_neg h2]; exact PC.pure Plain.nil
  · intro c t e h1 h2 iht
    unfold genStmt; rw [if_neg h1, if_pos h2]
    apply PC.bindA; intro _
    apply PC.bindC (genExpr_pc ctx c .A); intro cc hcc
    apply PC.bindC iht; intro ct hct
    exact PC.pure (((hcc.append (plain_of_all rfl)).append hct).append (plain_of_all rfl))
  · intro c t e h1 h2 h3 ihe
    unfold genStmt; rw [if_neg h1, if_neg h2, if_pos h3]
    apply PC.bindA; intro _
    apply PC.bindA; intro _
    apply PC.bindC (genExpr_pc ctx c .A); intro cc hcc
    apply PC.bindC ihe; intro ce hce
    exact PC.pure (((hcc.append (plain_of_all rfl)).append hce).append (plain_of_all rfl))
  · intro c t e h1 h2 h3 iht ihe
    unfold genStmt; rw [if_neg h1, if_neg h2, if_neg h3]
    apply PC.bindA; intro _
    apply PC.bindA; intro _
    apply PC.bindC (genExpr_pc ctx c .A); intro cc hcc
    apply PC.bindC iht; intro ct hct
    apply PC.bindC ihe; intro ce hce
    exact PC.pure (((((hcc.append (plain_of_all rfl)).append hct).append (plain_of_all rfl)).append hce).append (plain_of_all rfl))
  · intro c b ih
    unfold genStmt
    apply PC.bindA; intro _
    apply PC.bindA; intro _
    apply PC.bindC (genExpr_pc ctx c .A); intro cc hcc
    apply PC.bindC ih; intro cb hcb
    exact PC.pure (((((plain_of_all rfl : Plain [iLabel _]).append hcc).append (plain_of_all rfl)).append hcb).append (plain_of_all rfl))
  · intro ss ih; unfold genStmt; exact ih
  · intro n e
    unfold genStmt
    apply PC.bindC (genExpr_pc ctx e .A); intro c hc
    apply PC.bindA; intro sym
    apply PC.ite <;> exact PC.pure (hc.append (plain_of_all rfl))
  · intro n i e
    unfold genStmt
    apply PC.bindC (genExpr_pc ctx i .A); intro ci hci
    apply PC.bindA; intro sym
    apply PC.bindA; intro _
    apply PC.bindA; intro _
    apply PC.bindC (genExpr_pc ctx e .A); intro ce hce
    apply PC.bindA; intro _
    exact PC.pure ((((hci.append (genVar_plain _ _)).append (plain_of_all rfl)).append hce).append (plain_of_all rfl))
  · intro sys f args
    unfold genStmt
    exact callSeq_pc _ _ _ (genCallActuals_pc ctx args) (fun p s => loadActuals_pc ctx args p s)
  · unfold genStmts; exact PC.pure Plain.nil
  · intro s ss ih1 ih2
    unfold genStmts
    apply PC.bindC ih1; intro c hc
    apply PC.bindC ih2; intro cs hcs
    exact PC.pure (hc.append hcs)

/-- The PROLOGUE markers of an intermediate code, in order. -/
def procMarks : Code → List String
  | [] => []
  | .prologue n :: rest => n :: procMarks rest
  | _ :: rest => procMarks rest

theorem procMarks_append (a b : Code) : procMarks (a ++ b) = procMarks a ++ procMarks b := by
  induction a with
  | nil => rfl
  | cons d t ih => cases d <;> simp [procMarks, ih]

theorem procMarks_plain {c : Code} (h : Plain c) : procMarks c = [] := by
  induction c with
  | nil => rfl
  | cons d t ih =>
    have hd := h d (List.mem_cons_self ..)
    have ht : Plain t := fun x hx => h x (List.mem_cons_of_mem _ hx)
    cases d <;> simp [plainI] at hd <;> simp [procMarks, ih ht]

theorem okE_bind {α β : Type} {x : Except CDiag α} {f : α → Except CDiag β} {b : β}
    (h : x >>= f = .ok b) : ∃ a, x = .ok a ∧ f a = .ok b := by
  cases x with
  | error e => cases h
  | ok a => exact ⟨a, rfl, h⟩

theorem cgProc_marks (i : Nat) (p : AProc) (st st' : CGState) (h : cgProc i p st = .ok st') :
    procMarks st'.instrs = procMarks st.instrs ++ [p.name] := by
  unfold cgProc at h
  dsimp only at h
  obtain ⟨_, _, h⟩ := okE_bind h
  obtain ⟨q, _, h⟩ := okE_bind h
  obtain ⟨r, hr, h⟩ := okE_bind h
  cases h
  have hb : Plain r.1 := (genStmt_pc _ _).h _ _ _ (by
    have : (genStmt { tbl := q.1, scope := p.name, frame := i, exitLabel := (takeLabel st.gs).1 } p.body).run
        { (takeLabel st.gs).2 with offset := q.2, size := q.2 } = .ok (r.1, r.2) := hr
    exact this)
  simp only [procMarks_append, procMarks, procMarks_plain hb, List.append_nil, List.nil_append, List.append_assoc]

/-- **One PROLOGUE marker per procedure, in source order** - and nothing else at procedure level
    inside the bodies (`genStmt_pc`). -/
theorem cgProcs_marks : ∀ (ps : List AProc) (i : Nat) (st st' : CGState), cgProcs ps i st = .ok st' →
    procMarks st'.instrs = procMarks st.instrs ++ ps.map (·.name)
  | [], _, st, st', h => by unfold cgProcs at h; cases h; simp
  | p :: ps, i, st, st', h => by
    unfold cgProcs at h
    obtain ⟨st1, h1, h2⟩ := okE_bind h
    rw [cgProcs_marks ps (i + 1) st1 st' h2, cgProc_marks i p st st1 h1]
    simp

theorem cgGlobals_instrs : ∀ (ds : List ADecl) (st st' : CGState), cgGlobals ds st = .ok st' → st'.instrs = st.instrs
  | [], st, st', h => by unfold cgGlobals at h; cases h; rfl
  | d :: ds, st, st', h => by
    unfold cgGlobals at h
    cases d with
    | val n e => exact cgGlobals_instrs ds st st' h
    | var n =>
      dsimp only at h
      obtain ⟨_, _, h⟩ := okE_bind h
      have := cgGlobals_instrs ds _ st' h
      exact this
    | array n e =>
      dsimp only at h
      obtain ⟨_, _, h⟩ := okE_bind h
      obtain ⟨_, _, h⟩ := okE_bind h
      have := cgGlobals_instrs ds _ st' h
      exact this

/-- **The intermediate code of a program has exactly one PROLOGUE marker per procedure of the
    program, in source order** (the lowering pass turns each into that procedure's FUNC/PROC label
    and prologue; the peephole pass keeps labels, `peephole_labels`). -/
theorem codeGen_marks (tbl : SymTab) (A : AProgram) (cg : CGOut) (h : codeGen tbl A = .ok cg) :
    procMarks cg.instrs = A.procs.map (·.name) := by
  unfold codeGen at h
  dsimp only at h
  obtain ⟨st1, h1, h⟩ := okE_bind h
  obtain ⟨st2, h2, h⟩ := okE_bind h
  cases h
  have hm := cgProcs_marks A.procs 0 st1 st2 h2
  rw [cgGlobals_instrs _ _ _ h1] at hm
  have hs : procMarks startStub = [] := by decide
  rw [hs, List.nil_append] at hm
  exact hm

theorem cpProcs_names (tbl : SymTab) : ∀ (ps : List X.Proc) (i : Nat) (st : CPState) (ps' : List AProc),
    cpProcs tbl ps i st = .ok ps' → ps'.map (·.name) = ps.map (·.name)
  | [], _, _, ps', h => by unfold cpProcs at h; cases h; rfl
  | p :: ps, i, st, ps', h => by
    unfold cpProcs at h
    dsimp only at h
    obtain ⟨q, _, h⟩ := okE_bind h
    obtain ⟨body, _, h⟩ := okE_bind h
    obtain ⟨rest, hr, h⟩ := okE_bind h
    cases h
    simp [cpProcs_names tbl ps _ _ rest hr]

/-- **From the source program to the intermediate code**: one PROLOGUE marker per procedure or
    function of the SOURCE program, in source order. -/
theorem stages_marks (P : X.Program) (st : Stages) (h : stages P = .ok st) :
    procMarks st.cg.instrs = P.procs.map (·.name) := by
  unfold stages stagesJ at h
  obtain ⟨tbl, _, h⟩ := okE_bind h
  obtain ⟨A, hA, h⟩ := okE_bind h
  obtain ⟨cg, hcg, h⟩ := okE_bind h
  cases h
  rw [codeGen_marks tbl _ cg hcg]
  unfold constProp at hA
  obtain ⟨g, _, hA⟩ := okE_bind hA
  obtain ⟨procs, hp, hA⟩ := okE_bind hA
  cases hA
  have := cpProcs_names tbl _ _ _ procs hp
  simp only [optimise, List.map_map]
  rw [← this]
  apply List.map_congr_left
  intro p _
  rfl

/-- Lowering a plain body yields plain labels only: no FUNC / PROC label comes out of a procedure body. -/
theorem lowerCode_plain_labels (out : CGOut) : ∀ (c : Code), Plain c →
    ∀ l ∈ labelsOf (lowerCode out c), l.1 = LabelKind.plain
  | [], _, l, hl => by simp [lowerCode, labelsOf] at hl
  | d :: t, h, l, hl => by
    have hd := h d (List.mem_cons_self ..)
    have ht : Plain t := fun x hx => h x (List.mem_cons_of_mem _ hx)
    have ih := lowerCode_plain_labels out t ht
    unfold lowerCode at hl
    cases d with
    | dir dd =>
      cases dd with
      | label k n =>
        simp only [lowerOne, List.singleton_append, labelsOf, List.mem_cons] at hl
        rcases hl with rfl | hl
        · simpa [plainI] using hd
        · exact ih l hl
      | imm o v => simp only [lowerOne, List.singleton_append, labelsOf] at hl; exact ih l hl
      | ref o n r => simp only [lowerOne, List.singleton_append, labelsOf] at hl; exact ih l hl
      | opr k => simp only [lowerOne, List.singleton_append, labelsOf] at hl; exact ih l hl
      | data v => simp only [lowerOne, List.singleton_append, labelsOf] at hl; exact ih l hl
    | fb k f o => simp only [lowerOne, List.singleton_append, labelsOf] at hl; exact ih l hl
    | spValue => simp [plainI] at hd
    | prologue n => simp [plainI] at hd
    | epilogue n => simp [plainI] at hd

end Hex.Xcmp
