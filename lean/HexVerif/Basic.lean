/-
  Basic definitions shared by all models: 32-bit words, bytes, and the
  word-addressed memory of 200000 words that hexsim, xcmp and the reference
  simulator in hexb.pdf all assume (hex.hpp: MAX_MEMORY_SIZE_WORDS).
-/
namespace Hex

abbrev Word := BitVec 32
abbrev Byte := BitVec 8

/-- `hex::MAX_MEMORY_SIZE_WORDS` (hex.hpp) = `unsigned int mem[200000]` (hexb.pdf p.7). -/
def memWords : Nat := 200000

/-- Word-addressed memory with exactly `memWords` words. -/
structure Mem where
  data : Array Word
  size_eq : data.size = memWords

namespace Mem

def zero : Mem := ⟨Array.replicate memWords 0, by simp⟩

/-- Read word `i`. Out-of-range indices read 0; callers guard with `i < memWords`. -/
@[inline] def read (m : Mem) (i : Nat) : Word := m.data.getD i 0

/-- Write word `i`. Out-of-range writes are dropped; callers guard with `i < memWords`. -/
@[inline] def write (m : Mem) (i : Nat) (v : Word) : Mem :=
  ⟨m.data.setIfInBounds i v, by simp [m.size_eq]⟩

theorem read_write_same (m : Mem) (i : Nat) (v : Word) (h : i < memWords) :
    (m.write i v).read i = v := by
  simp [read, write, Array.getD, m.size_eq, h]

theorem read_write_other (m : Mem) (i j : Nat) (v : Word) (h : i ≠ j) :
    (m.write i v).read j = m.read j := by
  simp only [read, write, Array.getD_eq_getD_getElem?]
  rw [Array.getElem?_setIfInBounds_ne h]

theorem read_write (m : Mem) (i j : Nat) (v : Word) (h : i < memWords) :
    (m.write i v).read j = if i = j then v else m.read j := by
  by_cases hij : i = j
  · subst hij; simp [read_write_same m i v h]
  · simp [hij, read_write_other m i j v hij]

theorem read_zero (i : Nat) : zero.read i = 0 := by
  simp [read, zero, Array.getD_eq_getD_getElem?, Array.getElem?_replicate]
  split <;> rfl

/-- Extensional equality of memories. -/
theorem ext' {m₁ m₂ : Mem} (h : ∀ i, i < memWords → m₁.read i = m₂.read i) : m₁ = m₂ := by
  cases m₁ with | mk d₁ s₁ => cases m₂ with | mk d₂ s₂ =>
  congr
  apply Array.ext
  · rw [s₁, s₂]
  · intro i h1 h2
    have := h i (by rw [← s₁]; exact h1)
    simpa [read, Array.getD, h1, h2] using this

/-- Load a list of words at word address 0 (image loading). -/
def loadWords (m : Mem) (ws : List Word) : Mem :=
  (ws.foldl (fun (acc : Mem × Nat) w => (acc.1.write acc.2 w, acc.2 + 1)) (m, 0)).1

end Mem

/-- Little-endian byte `k` (0..3) of a word: `(w >> (k*8)) & 0xFF`. -/
@[inline] def byteOfWord (w : Word) (k : Nat) : Byte := (w >>> (k * 8)).truncate 8

/-- Assemble a word from four little-endian bytes. -/
def wordOfBytes (b0 b1 b2 b3 : Byte) : Word :=
  b0.zeroExtend 32 ||| (b1.zeroExtend 32 <<< 8) ||| (b2.zeroExtend 32 <<< 16) ||| (b3.zeroExtend 32 <<< 24)

/-- Pack a byte list into little-endian words, zero-padding the last one. -/
def wordsOfBytes : List Byte → List Word
  | [] => []
  | [a] => [wordOfBytes a 0 0 0]
  | [a, b] => [wordOfBytes a b 0 0]
  | [a, b, c] => [wordOfBytes a b c 0]
  | a :: b :: c :: d :: rest => wordOfBytes a b c d :: wordsOfBytes rest

end Hex
