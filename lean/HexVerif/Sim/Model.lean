import HexVerif.Isa.Spec
/-
  Model of `hexsim::Processor` (hexsim.hpp) and `hex::HexSimIO` (hexsimio.hpp)
  in the shape of the C++: one definition per member function, same case order,
  same intermediate quantities.  C++ undefined behaviour is not totalised away:
  an out-of-range `std::array` index is `Res.fault .oob`; members that no
  constructor initialises are read from an explicit `Junk` parameter.
-/
namespace Hex.Sim
open Hex.Isa (IOSt Conn Ev setFn)

/-- Values of the members the constructor leaves indeterminate (hexsim.hpp 76-80). -/
structure Junk where
  instr : Word
  mem : Mem
  exitCode : Word
  instrEnum : Nat

/-- One line of `-t` output: the leading columns printed by `trace()` (hexsim.hpp 166-178). -/
structure TraceLine where
  cycles : Nat
  pc : Word
  symbol : Option (String × Word)   -- `name+offset`, when a table is loaded and a symbol matches
  hasTable : Bool
  mnemonic : String
  operand : Nat                     -- instr & 0xF
  deriving DecidableEq, Repr

/-- `hexsim::Processor`. -/
structure Proc where
  pc : Word
  areg : Word
  breg : Word
  oreg : Word
  instr : Word
  memory : Mem
  io : IOSt
  truncateInputs : Bool
  running : Bool
  tracing : Bool
  exitCode : Word
  lastPC : Word
  cycles : Nat
  maxCycles : Nat
  instrEnum : Nat
  debugInfo : List (String × Word)
  /-- text written by `trace()`, newest first; `traceSyscall` lines are not modelled -/
  traceLog : List TraceLine

/-- Constructor (hexsim.hpp 76-80). After the D20 repair `memory` and `exitCode` are
    value-initialised; `instr`/`instrEnum` are still indeterminate but are written before
    they are read in `run()`. -/
def Proc.mk' (j : Junk) (io : IOSt) (maxCycles : Nat := 0) : Proc :=
  { pc := 0, areg := 0, breg := 0, oreg := 0, instr := j.instr,
    memory := Mem.zero, io, truncateInputs := true, running := true, tracing := false,
    exitCode := 0, lastPC := 0, cycles := 0, maxCycles, instrEnum := j.instrEnum,
    debugInfo := [], traceLog := [] }

/-- The pinned (unrepaired) constructor: `memory` and `exitCode` are whatever the storage held. -/
def Proc.mkPinned (j : Junk) (io : IOSt) (maxCycles : Nat := 0) : Proc :=
  { Proc.mk' j io maxCycles with memory := j.mem, exitCode := j.exitCode }

inductive Fault where
  | oob            -- std::array index outside [0, 200000)
  deriving DecidableEq, Repr

inductive Res (α : Type) where
  | ok (v : α)
  | throw (msg : String)       -- std::runtime_error
  | fault (f : Fault)          -- undefined behaviour in the C++

/-- `memory[i]` (read). -/
@[inline] def rd (m : Mem) (i : Word) : Option Word :=
  if i.toNat < memWords then some (m.read i.toNat) else none

/-- `memory[i] = v`. -/
@[inline] def wr (m : Mem) (i : Word) (v : Word) : Option Mem :=
  if i.toNat < memWords then some (m.write i.toNat v) else none

/-! ### hexsimio.hpp -/

/-- `HexSimIO::output(char value, int stream)`. -/
def ioOutput (io : IOSt) (value : Byte) (stream : Word) : IOSt :=
  if stream.toInt < 256 then { io with log := .out none value :: io.log }
  else
    let index : Fin 8 := ⟨((stream >>> 8) &&& 7).toNat % 8, Nat.mod_lt _ (by decide)⟩
    match io.conn index with
    | .closed => { io with conn := setFn io.conn index .forOut, log := .out (some index) value :: io.log }
    | .forOut => { io with log := .out (some index) value :: io.log }
    | .forIn  => io   -- put() on an fstream opened with std::fstream::in fails

/-- `HexSimIO::input(int stream)`: the `char` returned; `none` is EOF (`(char)-1`). -/
def ioInput (io : IOSt) (stream : Word) : Option Byte × IOSt :=
  if stream.toInt < 256 then
    match io.stdin with
    | [] => (none, io)
    | c :: rest => (some c, { io with stdin := rest })
  else
    let index : Fin 8 := ⟨((stream >>> 8) &&& 7).toNat % 8, Nat.mod_lt _ (by decide)⟩
    match io.conn index with
    | .forOut => (none, io)   -- get() on an fstream opened with std::fstream::out fails
    | c =>
      let io1 := if c = .closed then { io with conn := setFn io.conn index .forIn } else io
      match io.files index with
      | [] => (none, io1)
      | ch :: rest => (some ch, { io1 with files := setFn io1.files index rest })

/-- The `char` as the `int` it promotes to: sign-extended; EOF is -1. -/
def charToInt : Option Byte → Word
  | none => 0xFFFFFFFF
  | some c => c.signExtend 32

/-! ### syscall() (hexsim.hpp 240-258) -/

def syscall (p : Proc) : Res Proc :=
  let spWordIndex := p.memory.read 1
  if p.areg = 0 then                                    -- Syscall::EXIT
    match rd p.memory (spWordIndex + 2) with
    | some v => .ok { p with exitCode := v, running := false }
    | none => .fault .oob
  else if p.areg = 1 then                               -- Syscall::WRITE
    match rd p.memory (spWordIndex + 2), rd p.memory (spWordIndex + 3) with
    | some v, some s => .ok { p with io := ioOutput p.io (v.truncate 8) s }
    | _, _ => .fault .oob
  else if p.areg = 2 then                               -- Syscall::READ
    match rd p.memory (spWordIndex + 2) with
    | some s =>
      let (value, io') := ioInput p.io s
      let w : Word := if p.truncateInputs then charToInt value &&& 0xFF else charToInt value
      let kind : Option (Fin 8) :=
        if s.toInt < 256 then none
        else some ⟨((s >>> 8) &&& 7).toNat % 8, Nat.mod_lt _ (by decide)⟩
      match wr p.memory (spWordIndex + 1) w with
      | some m => .ok { p with memory := m, io := { io' with log := .inp kind w :: io'.log } }
      | none => .fault .oob
    | none => .fault .oob
  else .throw "invalid syscall"

/-! ### lookupSymbol / trace (hexsim.hpp 59-72, 166-178) -/

/-- The linear scan of `lookupSymbol()` as written. -/
def lookupSymbolAux (lastPC : Word) : List (String × Word) → Option String
  | [] => none
  | [(n, off)] => if lastPC.toNat ≥ off.toNat then some n else none
  | (n, off) :: (n', off') :: rest =>
      if lastPC.toNat ≥ off.toNat ∧ lastPC.toNat < off'.toNat then some n
      else lookupSymbolAux lastPC ((n', off') :: rest)

def lookupSymbol (lastPC : Word) (tbl : List (String × Word)) : Option String :=
  match tbl with
  | [] => none
  | (_, off0) :: _ => if lastPC.toNat < off0.toNat then none else lookupSymbolAux lastPC tbl

/-- `debugInfoMap[name]`: the map keeps the last value assigned to a name. -/
def mapLookup (name : String) (tbl : List (String × Word)) : Word :=
  match (tbl.reverse.find? (fun e => e.1 == name)) with
  | some e => e.2
  | none => 0

/-- `hex::instrEnumToStr`. -/
def instrEnumToStr : Nat → String
  | 0x0 => "LDAM" | 0x1 => "LDBM" | 0x2 => "STAM" | 0x3 => "LDAC" | 0x4 => "LDBC"
  | 0x5 => "LDAP" | 0x6 => "LDAI" | 0x7 => "LDBI" | 0x8 => "STAI" | 0x9 => "BR"
  | 0xA => "BRZ" | 0xB => "BRN" | 0xD => "OPR" | 0xE => "PFIX" | 0xF => "NFIX"
  | _ => "UNKNOWN"

def traceLine (p : Proc) : TraceLine :=
  let sym : Option (String × Word) :=
    if p.debugInfo.isEmpty then none
    else match lookupSymbol p.lastPC p.debugInfo with
      | some n => some (n, p.lastPC - mapLookup n p.debugInfo)
      | none => none
  { cycles := p.cycles, pc := p.lastPC, symbol := sym, hasTable := !p.debugInfo.isEmpty,
    mnemonic := instrEnumToStr p.instrEnum, operand := (p.instr &&& 0xF).toNat }

/-! ### One iteration of the loop in run() (hexsim.hpp 260-361) -/

/-- The `switch (instrEnum)` of `run()` followed by `cycles++`. -/
def exec (p : Proc) : Res Proc :=
  let fin (q : Proc) : Res Proc := .ok { q with cycles := q.cycles + 1 }
  match p.instrEnum with
  | 0x0 => match rd p.memory p.oreg with
           | some v => fin { p with areg := v, oreg := 0 } | none => .fault .oob
  | 0x1 => match rd p.memory p.oreg with
           | some v => fin { p with breg := v, oreg := 0 } | none => .fault .oob
  | 0x2 => match wr p.memory p.oreg p.areg with
           | some m => fin { p with memory := m, oreg := 0 } | none => .fault .oob
  | 0x3 => fin { p with areg := p.oreg, oreg := 0 }
  | 0x4 => fin { p with breg := p.oreg, oreg := 0 }
  | 0x5 => fin { p with areg := p.pc + p.oreg, oreg := 0 }
  | 0x6 => match rd p.memory (p.areg + p.oreg) with
           | some v => fin { p with areg := v, oreg := 0 } | none => .fault .oob
  | 0x7 => match rd p.memory (p.breg + p.oreg) with
           | some v => fin { p with breg := v, oreg := 0 } | none => .fault .oob
  | 0x8 => match wr p.memory (p.breg + p.oreg) p.areg with
           | some m => fin { p with memory := m, oreg := 0 } | none => .fault .oob
  | 0x9 => fin { p with pc := p.pc + p.oreg, oreg := 0 }
  | 0xA => fin { p with pc := if p.areg = 0 then p.pc + p.oreg else p.pc, oreg := 0 }
  | 0xB => fin { p with pc := if p.areg.toInt < 0 then p.pc + p.oreg else p.pc, oreg := 0 }
  | 0xE => fin { p with oreg := p.oreg <<< 4 }
  | 0xF => fin { p with oreg := 0xFFFFFF00 ||| (p.oreg <<< 4) }
  | 0xD =>
    if p.oreg = 0 then fin { p with pc := p.breg, oreg := 0 }
    else if p.oreg = 1 then fin { p with areg := p.areg + p.breg, oreg := 0 }
    else if p.oreg = 2 then fin { p with areg := p.areg - p.breg, oreg := 0 }
    else if p.oreg = 3 then
      match syscall p with
      | .ok q => fin { q with oreg := 0 }
      | .throw m => .throw m
      | .fault f => .fault f
    else .throw "invalid OPR"
  | _ => .throw "invalid instruction"

/-- The fetch/decode prefix of the loop body:
    `instr = ...; lastPC = pc; pc = pc + 1; oreg = oreg | (instr & 0xF); instrEnum = ...`. -/
def fetchDecode (p0 : Proc) (w : Word) : Proc :=
  let instr : Word := (w >>> (((p0.pc &&& 3) <<< 3).toNat)) &&& 0xFF
  { p0 with instr, lastPC := p0.pc, pc := p0.pc + 1,
            oreg := p0.oreg ||| (instr &&& 0xF),
            instrEnum := ((instr >>> 4) &&& 0xF).toNat }

/-- `if (tracing) trace(instr, instrEnum);` -/
def traceHook (p : Proc) : Proc :=
  if p.tracing then { p with traceLog := traceLine p :: p.traceLog } else p

/-- One iteration of the loop in `run()`. -/
def stepBody (p0 : Proc) : Res Proc :=
  match rd p0.memory (p0.pc >>> 2) with
  | none => .fault .oob
  | some w => exec (traceHook (fetchDecode p0 w))

/-- The loop condition of `run()`. -/
def loopCond (p : Proc) : Bool :=
  p.running && (if p.maxCycles > 0 then p.cycles ≤ p.maxCycles else true)

inductive RunRes where
  | returned (exitCode : Word) (p : Proc)
  | threw (msg : String) (p : Proc)
  | faulted (f : Fault) (p : Proc)
  | outOfFuel (p : Proc)

/-- `run()`, with `fuel` bounding the number of loop iterations executed. -/
def run (fuel : Nat) (p : Proc) : RunRes :=
  if loopCond p then
    match fuel with
    | 0 => .outOfFuel p
    | fuel + 1 =>
      match stepBody p with
      | .ok q => run fuel q
      | .throw m => .threw m p
      | .fault f => .faulted f p
  else .returned p.exitCode p

/-! ### load() (hexsim.hpp 85-147), on the bytes of the file -/

def le32 (bs : List Byte) : Word :=
  match bs with
  | a :: b :: c :: d :: _ => wordOfBytes a b c d
  | _ => 0

/-- Read NUL-terminated strings. -/
def readCStr : List Byte → List Char → String × List Byte
  | [], acc => (String.ofList acc.reverse, [])
  | c :: rest, acc => if c = 0 then (String.ofList acc.reverse, rest)
                      else readCStr rest (Char.ofNat c.toNat :: acc)

def readStrings : Nat → List Byte → List String → List String × List Byte
  | 0, bs, acc => (acc.reverse, bs)
  | n + 1, bs, acc => let (s, rest) := readCStr bs []; readStrings n rest (s :: acc)

def readSymbols : Nat → List Byte → List String → List (String × Word) → Option (List (String × Word))
  | 0, _, _, acc => some acc.reverse
  | n + 1, bs, strs, acc =>
    let strIndex := le32 bs
    let byteOffset := le32 (bs.drop 4)
    match strs[strIndex.toNat]? with
    | some s => readSymbols n (bs.drop 8) strs ((s, byteOffset) :: acc)
    | none => none   -- strings[strIndex] out of range: UB

/-- The part of `load(filename)` that reads the file: new memory contents and the symbol table.
    Precondition (else `none`: the C++ reads indeterminate values or overruns `memory`): the
    file has at least 4 bytes, the program fits in memory, the debug section is well formed. -/
def loadParts (mem0 : Mem) (file : List Byte) : Option (Mem × List (String × Word)) :=
  if file.length < 4 then none else
  let remaining := ((file.length - 4 + 3) / 4) * 4
  let programSize := (le32 file).toNat * 4
  if programSize > memWords * 4 then none else
  let body := file.drop 4
  let prog := body.take programSize
  let mem := mem0.loadWords (wordsOfBytes prog)
  if remaining > programSize then
    let dbg := body.drop programSize
    if dbg.length < 4 then some (mem, []) else
    let numStrings := (le32 dbg).toNat
    if numStrings > dbg.length then none else
    let (strs, rest) := readStrings numStrings (dbg.drop 4) []
    let numSymbols := (le32 rest).toNat
    if numSymbols > rest.length then none else
    match readSymbols numSymbols (rest.drop 4) strs [] with
    | some tbl => some (mem, tbl)
    | none => none
  else some (mem, [])

/-- `load(filename)` (hexsim.hpp 85-147). -/
def load (p : Proc) (file : List Byte) : Option Proc :=
  match loadParts p.memory file with
  | some (m, tbl) => some { p with memory := m, debugInfo := p.debugInfo ++ tbl }
  | none => none

end Hex.Sim
