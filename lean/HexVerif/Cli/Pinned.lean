import HexVerif.Cli.Model
/-!
  The four `main`s of the *pinned* tree (e8d73ac), before the C14 repairs.  Only the places
  where they differ from `Cli/Model.lean` are written out again; each difference is marked
  `-- PINNED`.  `Properties/C14.lean` proves on concrete witnesses that the C14 statements are
  false of these models (defects D6, D18, D19, and the unchecked opens), and `./check C14` run
  with `C14_MODEL=pinned` ties these models to the pinned executables.
-/
namespace Hex.Cli.Pinned
open Hex.Cli

/-- PINNED `emitBin`: the `fstream` is never checked; if the open fails every write is
    dropped silently. -/
def emitBin (fs : Fs) (out : String) (img : Bytes) : Fs :=
  if fs.canWrite out then fs.write out img else fs

/-! ## hexasm.cpp -/

structure AsmOpts where
  tokensOnly : Bool := false
  instrsOnly : Bool := false
  filename : Option String := none
  /-- `none` is the null pointer `argv[argc]` picked up by a trailing `-o`. -/
  outputFilename : Option String := some "a.out"

def hexasmLoop : List String → AsmOpts → Args AsmOpts
  | [], o => .done o
  | a :: rest, o =>
    if a = "-h" ∨ a = "--help" then .help
    else if a = "--tokens" then hexasmLoop rest { o with tokensOnly := true }
    else if a = "--instrs" then hexasmLoop rest { o with instrsOnly := true }
    else if a = "--output" ∨ a = "-o" then
      match rest with
      | [] => .done { o with outputFilename := none }     -- PINNED argv[++i] == argv[argc] == NULL
      | v :: rest' => hexasmLoop rest' { o with outputFilename := some v }
    else if dash a then .exn
    else
      match o.filename with
      | none => hexasmLoop rest { o with filename := some a }
      | some _ => .exn

def hexasmBody (core : AsmCore) (o : AsmOpts) (fs : Fs) : Result :=
  match o.filename with
  | none => ⟨1, fs, false, .usage⟩
  | some f =>
    match fs.read f with
    | none => ⟨1, fs, true, .none⟩
    | some src =>
      if o.tokensOnly && !o.instrsOnly then
        match core.lex src with
        | .ok _ => ⟨0, fs, false, .text⟩
        | .error _ => ⟨0, fs, true, .text⟩                -- PINNED 1st catch arm falls through to `return 0`
        | .exn => ⟨1, fs, true, .text⟩
      else
        match core.assemble src with
        | .error _ => ⟨0, fs, true, .none⟩                -- PINNED (D6)
        | .exn => ⟨1, fs, true, .none⟩
        | .ok img =>
          if o.instrsOnly then ⟨0, fs, false, .text⟩
          else
            match o.outputFilename with
            | none => ⟨1, fs, true, .none⟩                -- std::string(nullptr): logic_error → 2nd arm
            | some out => ⟨0, emitBin fs out img, false, .none⟩   -- PINNED unchecked open

def hexasmMain (core : AsmCore) (args : List String) (fs : Fs) : Result :=
  match hexasmLoop args {} with
  | .help => ⟨1, fs, false, .usage⟩
  | .exn => ⟨1, fs, true, .none⟩
  | .done o => hexasmBody core o fs

/-! ## xcmp -/

def driverRun (xc : XcmpCore) (action : Action) (input : String) (inputIsFilename : Bool)
    (outputBinaryFilename : String) (mem : Bool) (fs : Fs) : RunOutcome :=
  let src : Option Bytes :=
    if inputIsFilename then fs.read input
    else some (input.toUTF8.toList.map (fun b => BitVec.ofNat 8 b.toNat))
  match src with
  | none => .exn .none
  | some s =>
    match xc.compile action mem s with
    | .error l => .error l
    | .exn => .exn .none
    | .ok img =>
      if action = .binary then
        .ret 0 (emitBin fs outputBinaryFilename img) false (stdoutOfAction action mem)   -- PINNED unchecked open
      else .ret 0 fs false (stdoutOfAction action mem)

def driverRunCatch (xc : XcmpCore) (action : Action) (input : String) (inputIsFilename : Bool)
    (outputBinaryFilename : String) (mem : Bool) (fs : Fs) : RunOutcome :=
  match driverRun xc action input inputIsFilename outputBinaryFilename mem fs with
  | .error _ => .ret 1 fs true (stdoutOfAction action mem)     -- whatever had been printed before the throw
  | r => r

structure XcmpOpts where
  action : Action := .binary
  inputFilename : Option String := none
  outputFilename : Option String := some "a.out"
  reportMemoryInfo : Bool := false

def xcmpLoop : List String → XcmpOpts → Args XcmpOpts
  | [], o => .done o
  | a :: rest, o =>
    if a = "-h" ∨ a = "--help" then .help
    else match xcmpActionOf a with
    | some act => xcmpLoop rest { o with action := act }
    | none =>
      if a = "--memory-info" then xcmpLoop rest { o with reportMemoryInfo := true }
      else if a = "--output" ∨ a = "-o" then
        match rest with
        | [] => .done { o with outputFilename := none }   -- PINNED NULL
        | v :: rest' => xcmpLoop rest' { o with outputFilename := some v }
      else if dash a then .exn
      else
        match o.inputFilename with
        | none => xcmpLoop rest { o with inputFilename := some a }
        | some _ => .exn

def xcmpBody (xc : XcmpCore) (o : XcmpOpts) (fs : Fs) : Result :=
  match o.inputFilename with
  | none => ⟨1, fs, false, .usage⟩
  | some f =>
    -- PINNED (D18) runCatchExceptions(driverAction, inputFilename, outputFilename, "a.out", reportMemoryInfo):
    -- the `const char *outputFilename` converts to the `bool inputIsFilename` parameter
    -- (true unless it is the null pointer) and the output name is the literal "a.out".
    resultOfRun fs (driverRunCatch xc o.action f o.outputFilename.isSome "a.out" o.reportMemoryInfo fs)

def xcmpMain (xc : XcmpCore) (args : List String) (fs : Fs) : Result :=
  match xcmpLoop args {} with
  | .help => ⟨1, fs, false, .usage⟩
  | .exn => ⟨1, fs, true, .none⟩
  | .done o => xcmpBody xc o fs

/-! ## hexsim.cpp: `load` never checks that the file opened; with a missing file the program
    size and the memory contents are whatever the uninitialised `programSize` selects; the model
    makes that an explicit `junk` image. -/

def simulate (sim : SimCore) (junk : Bytes) (trace : Bool) (maxCycles : Nat) (file : String) (fs : Fs) : Result :=
  match sim.run trace maxCycles ((fs.read file).getD junk) with          -- PINNED
  | .exited v => ⟨v.toNat % 256, fs, false, .program⟩
  | .threw => ⟨1, fs, true, .program⟩

def hexsimBody (sim : SimCore) (junk : Bytes) (o : SimOpts) (fs : Fs) : Result :=
  match o.filename with
  | none => ⟨1, fs, false, .usage⟩
  | some f =>
    if o.dumpBinary then ⟨0, fs, false, .text⟩                           -- PINNED
    else simulate sim junk o.trace o.maxCycles f fs

def hexsimMain (sim : SimCore) (junk : Bytes) (args : List String) (fs : Fs) : Result :=
  match hexsimLoop args {} with
  | .help => ⟨1, fs, false, .usage⟩
  | .exn => ⟨1, fs, true, .none⟩
  | .done o => hexsimBody sim junk o fs

/-! ## xrun.cpp -/

def xrunBody (xc : XcmpCore) (sim : SimCore) (junk : Bytes) (o : RunOpts) (fs : Fs) : Result :=
  match o.inputFilename with
  | none => ⟨1, fs, true, .none⟩
  | some f =>
    match driverRunCatch xc .binary f true "a.bin" false fs with
    | .ret 0 fs' _ _ =>
      match simulate sim junk o.trace o.maxCycles "a.bin" fs' with
      | ⟨_, fs'', false, out⟩ => ⟨0, fs'', false, out⟩     -- PINNED (D19) `processor.run();` result dropped; `return 0`
      | r => r                                             -- run() threw: catch arm, `return 1`
    | .ret _ fs' err out => ⟨0, fs', err, out⟩             -- PINNED compile failed: falls to `return 0`
    | .error _ => ⟨1, fs, true, .none⟩
    | .exn out => ⟨1, fs, true, out⟩

def xrunMain (xc : XcmpCore) (sim : SimCore) (junk : Bytes) (args : List String) (fs : Fs) : Result :=
  match xrunLoop args {} with
  | .help => ⟨1, fs, false, .usage⟩
  | .exn => ⟨1, fs, true, .none⟩
  | .done o => xrunBody xc sim junk o fs

end Hex.Cli.Pinned
