import HexVerif.Basic
/-!
  Models of the four command-line drivers `hexasm.cpp`, `xcmp.cpp` (+ `Driver::run` /
  `Driver::runCatchExceptions` at the end of xcmp.hpp, `CodeGen::emitBin` at the end of
  hexasm.hpp), `xrun.cpp` and `hexsim.cpp`, *as written after the C14 repairs* (the models of
  the pinned mains are in `Cli/Pinned.lean`).

  What is abstracted: the work between "source bytes" and "image bytes / diagnostic" is a
  parameter (`AsmCore`, `XcmpCore`, `SimCore`); the file system is a map from names to
  contents plus a "can be opened for writing" predicate.  What is *not* abstracted: the argument
  loop (which token consumes the next one, defaults, help paths, unknown options, second file),
  the try/catch structure (which arm returns what), and when the output file is opened.

  Observation of one invocation: `Result` = exit status, file system afterwards, whether
  anything was written to stderr, and the kind of text on stdout.
-/
namespace Hex.Cli

abbrev Bytes := List Byte

/-! ## File system -/

/-- The part of the file system an invocation can see. `read n = none`: `n` cannot be opened for
    reading (absent, …). `canWrite n = false`: opening `n` with `std::ios::out` fails (it is a
    directory, its directory does not exist, no permission). -/
structure Fs where
  read : String → Option Bytes
  canWrite : String → Bool

/-- A successful `fstream(n, out|binary)` + writes + `close()`: `n` now holds exactly `b`. -/
def Fs.write (fs : Fs) (n : String) (b : Bytes) : Fs :=
  { fs with read := fun m => if m = n then some b else fs.read m }

/-! ## Observations -/

inductive Stdout where
  | none      -- nothing
  | usage     -- the `help()` text
  | text      -- a listing (tokens, tree, instructions, dump, memory info)
  | program   -- whatever the simulated program printed
  deriving DecidableEq, Repr, Inhabited

structure Result where
  status : Nat
  fs : Fs
  stderr : Bool
  stdout : Stdout

/-- What the code between "open the source" and "emit" did. -/
inductive Core (α : Type) where
  | ok (a : α)                 -- ran to completion
  | error (located : Bool)     -- threw a `hexutil::Error` (with / without a location)
  | exn                        -- threw some other `std::exception`
  deriving Repr

/-- Outcome of an argument loop. -/
inductive Args (σ : Type) where
  | done (o : σ)               -- loop ran to `i == argc`
  | help                       -- `-h` / `--help` seen: `help(argv); std::exit(1)` (hexsim: `return 1`)
  | exn                        -- a `std::runtime_error` (or `std::stoull`'s exception) was thrown
  deriving Repr

/-- `argv[i][0] == '-'`. -/
def dash (a : String) : Bool := a.toList.head? == some '-'

/-! ## `std::stoull(str)` (base 10): skip white space, optional sign, digits; throws
    `invalid_argument` if there is no digit, `out_of_range` above 2^64-1; a leading `-`
    negates modulo 2^64. -/

def isSpace (c : Char) : Bool :=
  c = ' ' || c = '\t' || c = '\n' || c = '\x0b' || c = '\x0c' || c = '\r'

def digitsVal (ds : List Char) : Nat := ds.foldl (fun n c => n * 10 + (c.toNat - 48)) 0

def stoull (s : String) : Option Nat :=
  let cs := s.toList.dropWhile isSpace
  let (neg, cs) := match cs with
    | '-' :: r => (true, r)
    | '+' :: r => (false, r)
    | r => (false, r)
  let ds := cs.takeWhile Char.isDigit
  if ds.isEmpty then none
  else
    let v := digitsVal ds
    if v ≥ 2 ^ 64 then none
    else some (if neg then (2 ^ 64 - v) % 2 ^ 64 else v)

/-! ## `hexasm::CodeGen::emitBin(outputFilename)` (hexasm.hpp, shared by hexasm and xcmp)

    ```
    std::fstream outputFile(outputFilename, std::ios::out | std::ios::binary);
    if (!outputFile.is_open()) throw std::runtime_error("could not open output file");   // repair
    … write size word, program, debug info …; outputFile.close();
    ```
    `none` = the `throw`.  Nothing between the open and the close can throw, and every error of
    the assembler proper is raised in the `CodeGen` constructor, i.e. before `emitBin` is called. -/
def emitBin (fs : Fs) (out : String) (img : Bytes) : Option Fs :=
  if fs.canWrite out then some (fs.write out img) else none

/-! ## hexasm.cpp -/

structure AsmCore where
  /-- `lexer.emitTokens(std::cout)` on the source. -/
  lex : Bytes → Core Unit
  /-- `parser.parseProgram()` + `CodeGen codeGen(program)`; `ok img`: the bytes `emitBin` writes. -/
  assemble : Bytes → Core Bytes

structure AsmOpts where
  tokensOnly : Bool := false
  instrsOnly : Bool := false
  filename : Option String := none
  outputFilename : String := "a.out"

/-- hexasm.cpp, the `for (int i = 1; i < argc; ++i)` loop. -/
def hexasmLoop : List String → AsmOpts → Args AsmOpts
  | [], o => .done o
  | a :: rest, o =>
    if a = "-h" ∨ a = "--help" then .help
    else if a = "--tokens" then hexasmLoop rest { o with tokensOnly := true }
    else if a = "--instrs" then hexasmLoop rest { o with instrsOnly := true }
    else if a = "--output" ∨ a = "-o" then
      match rest with
      | [] => .exn                                        -- "missing argument to -o" (repair)
      | v :: rest' => hexasmLoop rest' { o with outputFilename := v }   -- argv[++i]
    else if dash a then .exn                              -- "unrecognised argument: …"
    else
      match o.filename with
      | none => hexasmLoop rest { o with filename := some a }
      | some _ => .exn                                    -- "cannot specify more than one file"

/-- hexasm.cpp after the loop, inside the `try`. `errStatus` is what the
    `catch (const hexutil::Error &)` arm returns (1 after the repair). -/
def hexasmBody (core : AsmCore) (o : AsmOpts) (fs : Fs) : Result :=
  match o.filename with
  | none => ⟨1, fs, false, .usage⟩                        -- help(argv); std::exit(1)
  | some f =>
    match fs.read f with
    | none => ⟨1, fs, true, .none⟩                        -- openFile: runtime_error → 2nd catch arm
    | some src =>
      if o.tokensOnly && !o.instrsOnly then
        match core.lex src with
        | .ok _ => ⟨0, fs, false, .text⟩
        | .error _ => ⟨1, fs, true, .text⟩                -- 1st catch arm: `return 1` (repair)
        | .exn => ⟨1, fs, true, .text⟩
      else
        match core.assemble src with
        | .error _ => ⟨1, fs, true, .none⟩
        | .exn => ⟨1, fs, true, .none⟩
        | .ok img =>
          if o.instrsOnly then ⟨0, fs, false, .text⟩      -- emitProgramText; return 0
          else
            match emitBin fs o.outputFilename img with
            | some fs' => ⟨0, fs', false, .none⟩          -- falls out of the try; return 0
            | none => ⟨1, fs, true, .none⟩                -- runtime_error → 2nd catch arm

def hexasmMain (core : AsmCore) (args : List String) (fs : Fs) : Result :=
  match hexasmLoop args {} with
  | .help => ⟨1, fs, false, .usage⟩
  | .exn => ⟨1, fs, true, .none⟩
  | .done o => hexasmBody core o fs

/-! ## xcmp.hpp `Driver::run`, `Driver::runCatchExceptions`; xcmp.cpp -/

inductive Action where
  | tokens | tree | treeOpt | insts | lowered | optimised | asm | binary
  deriving DecidableEq, Repr, Inhabited

structure XcmpCore where
  /-- Everything `Driver::run` does between opening the input and the final `emitBin`, for the
      given action and `reportMemoryInfo`; for `Action.binary`, `ok img` carries the bytes
      `emitBin` writes (for the other actions the payload is ignored). -/
  compile : Action → Bool → Bytes → Core Bytes

/-- What a call of `Driver::run` / `runCatchExceptions` does. -/
inductive RunOutcome where
  | ret (code : Nat) (fs : Fs) (stderr : Bool) (out : Stdout)
  | error (located : Bool)     -- `hexutil::Error` escapes (only out of `run`)
  | exn (out : Stdout)         -- another `std::exception` escapes (after `out` had been printed)

def stdoutOfAction (action : Action) (mem : Bool) : Stdout :=
  if action = .binary then (if mem then .text else .none) else .text

/-- `Driver::run(action, input, inputIsFilename, outputBinaryFilename, reportMemoryInfo)`. -/
def driverRun (xc : XcmpCore) (action : Action) (input : String) (inputIsFilename : Bool)
    (outputBinaryFilename : String) (mem : Bool) (fs : Fs) : RunOutcome :=
  let src : Option Bytes :=
    if inputIsFilename then fs.read input                 -- lexer.openFile(input)
    else some (input.toUTF8.toList.map (fun b => BitVec.ofNat 8 b.toNat))   -- lexer.loadBuffer(input)
  match src with
  | none => .exn .none                                    -- runtime_error("could not open file")
  | some s =>
    match xc.compile action mem s with
    | .error l => .error l
    | .exn => .exn .none
    | .ok img =>
      if action = .binary then
        match emitBin fs outputBinaryFilename img with
        | some fs' => .ret 0 fs' false (stdoutOfAction action mem)
        | none => .exn (stdoutOfAction action mem)         -- the listing of --memory-info is already out
      else .ret 0 fs false (stdoutOfAction action mem)

/-- `Driver::runCatchExceptions`: only `hexutil::Error` is caught here (diagnostic, `return 1`). -/
def driverRunCatch (xc : XcmpCore) (action : Action) (input : String) (inputIsFilename : Bool)
    (outputBinaryFilename : String) (mem : Bool) (fs : Fs) : RunOutcome :=
  match driverRun xc action input inputIsFilename outputBinaryFilename mem fs with
  | .error _ => .ret 1 fs true (stdoutOfAction action mem)     -- whatever had been printed before the throw
  | r => r

structure XcmpOpts where
  action : Action := .binary
  inputFilename : Option String := none
  outputFilename : String := "a.out"
  reportMemoryInfo : Bool := false

/-- xcmp.cpp: which `DriverAction` a flag selects (note `--insts-asm` selects `EMIT_TREE`). -/
def xcmpActionOf (a : String) : Option Action :=
  if a = "--tokens" then some .tokens
  else if a = "--tree" then some .tree
  else if a = "--tree-opt" then some .treeOpt
  else if a = "--insts" then some .insts
  else if a = "--insts-lowered" then some .lowered
  else if a = "--insts-optimised" then some .optimised
  else if a = "-S" then some .asm
  else if a = "--insts-asm" then some .tree
  else none

/-- xcmp.cpp, the argument loop. -/
def xcmpLoop : List String → XcmpOpts → Args XcmpOpts
  | [], o => .done o
  | a :: rest, o =>
    if a = "-h" ∨ a = "--help" then .help
    else match xcmpActionOf a with
    | some act => xcmpLoop rest { o with action := act }
    | none =>
      if a = "--memory-info" then xcmpLoop rest { o with reportMemoryInfo := true }
      else if a = "--output" ∨ a = "-o" then
        match rest with
        | [] => .exn
        | v :: rest' => xcmpLoop rest' { o with outputFilename := v }
      else if dash a then .exn
      else
        match o.inputFilename with
        | none => xcmpLoop rest { o with inputFilename := some a }
        | some _ => .exn

/-- Turn what `runCatchExceptions` did into the process result, as seen from a `main` whose
    `catch (const std::exception &)` prints and returns 1. -/
def resultOfRun (fs : Fs) : RunOutcome → Result
  | .ret code fs' err out => ⟨code, fs', err, out⟩
  | .error _ => ⟨1, fs, true, .none⟩
  | .exn out => ⟨1, fs, true, out⟩

def xcmpBody (xc : XcmpCore) (o : XcmpOpts) (fs : Fs) : Result :=
  match o.inputFilename with
  | none => ⟨1, fs, false, .usage⟩
  | some f =>
    -- return driver.runCatchExceptions(driverAction, inputFilename, true, outputFilename, reportMemoryInfo);
    resultOfRun fs (driverRunCatch xc o.action f true o.outputFilename o.reportMemoryInfo fs)

def xcmpMain (xc : XcmpCore) (args : List String) (fs : Fs) : Result :=
  match xcmpLoop args {} with
  | .help => ⟨1, fs, false, .usage⟩
  | .exn => ⟨1, fs, true, .none⟩
  | .done o => xcmpBody xc o fs

/-! ## hexsim.cpp -/

inductive SimOutcome where
  | exited (v : Word)          -- `run()` returned `v` (the argument of the EXIT call, or 0 at the cycle limit)
  | threw                      -- `run()` threw (invalid instruction / OPR / syscall)
  deriving Repr

structure SimCore where
  /-- `Processor p(cin, cout, maxCycles); p.setTracing(trace); p.load(file); p.run()` on the
      bytes of the file.  Programs that do not terminate have no exit status and are outside the
      model; programs that open `simout` files are assumed not to touch the names observed. -/
  run : (trace : Bool) → (maxCycles : Nat) → Bytes → SimOutcome

structure SimOpts where
  filename : Option String := none
  dumpBinary : Bool := false
  trace : Bool := false
  maxCycles : Nat := 0

/-- hexsim.cpp, the argument loop (no "unrecognised argument" arm: anything else is the file). -/
def hexsimLoop : List String → SimOpts → Args SimOpts
  | [], o => .done o
  | a :: rest, o =>
    if a = "-d" ∨ a = "--dump" then hexsimLoop rest { o with dumpBinary := true }
    else if a = "-t" ∨ a = "--trace" then hexsimLoop rest { o with trace := true }
    else if a = "--max-cycles" then
      match rest with
      | [] => .exn
      | v :: rest' =>
        match stoull v with
        | none => .exn
        | some n => hexsimLoop rest' { o with maxCycles := n }
    else if a = "-h" ∨ a = "--help" then .help
    else
      match o.filename with
      | none => hexsimLoop rest { o with filename := some a }
      | some _ => .exn

/-- The simulator part shared by hexsim.cpp and xrun.cpp: construct, `load`, `run`, and return
    `run()`'s value from `main` (the host keeps the low 8 bits). -/
def simulate (sim : SimCore) (trace : Bool) (maxCycles : Nat) (file : String) (fs : Fs) : Result :=
  match fs.read file with
  | none => ⟨1, fs, true, .none⟩                          -- "could not open file" (repair)
  | some img =>
    match sim.run trace maxCycles img with
    | .exited v => ⟨v.toNat % 256, fs, false, .program⟩
    | .threw => ⟨1, fs, true, .program⟩

def hexsimBody (sim : SimCore) (o : SimOpts) (fs : Fs) : Result :=
  match o.filename with
  | none => ⟨1, fs, false, .usage⟩
  | some f =>
    if o.dumpBinary then
      match fs.read f with
      | none => ⟨1, fs, true, .none⟩
      | some _ => ⟨0, fs, false, .text⟩
    else simulate sim o.trace o.maxCycles f fs

def hexsimMain (sim : SimCore) (args : List String) (fs : Fs) : Result :=
  match hexsimLoop args {} with
  | .help => ⟨1, fs, false, .usage⟩
  | .exn => ⟨1, fs, true, .none⟩
  | .done o => hexsimBody sim o fs

/-! ## xrun.cpp -/

structure RunOpts where
  inputFilename : Option String := none
  trace : Bool := false
  maxCycles : Nat := 0

def xrunLoop : List String → RunOpts → Args RunOpts
  | [], o => .done o
  | a :: rest, o =>
    if a = "-h" ∨ a = "--help" then .help
    else if a = "-t" ∨ a = "--trace" then xrunLoop rest { o with trace := true }
    else if a = "--max-cycles" then
      match rest with
      | [] => .exn
      | v :: rest' =>
        match stoull v with
        | none => .exn
        | some n => xrunLoop rest' { o with maxCycles := n }
    else if dash a then .exn
    else
      match o.inputFilename with
      | none => xrunLoop rest { o with inputFilename := some a }
      | some _ => .exn

def xrunBody (xc : XcmpCore) (sim : SimCore) (o : RunOpts) (fs : Fs) : Result :=
  match o.inputFilename with
  | none => ⟨1, fs, true, .none⟩          -- std::string(nullptr): logic_error → catch → 1
  | some f =>
    match driverRunCatch xc .binary f true "a.bin" false fs with
    | .ret 0 fs' _ _ => simulate sim o.trace o.maxCycles "a.bin" fs'    -- return processor.run() (repair)
    | .ret code fs' err out => ⟨code, fs', err, out⟩                     -- return 1 (repair)
    | .error _ => ⟨1, fs, true, .none⟩
    | .exn out => ⟨1, fs, true, out⟩

def xrunMain (xc : XcmpCore) (sim : SimCore) (args : List String) (fs : Fs) : Result :=
  match xrunLoop args {} with
  | .help => ⟨1, fs, false, .usage⟩
  | .exn => ⟨1, fs, true, .none⟩
  | .done o => xrunBody xc sim o fs

/-! ## Command lines as item lists (the declarative side of the theorems) -/

inductive Item where
  | flag (n : String)
  | opt (n v : String)
  | file (f : String)
  deriving DecidableEq, Repr

def Item.render : Item → List String
  | .flag n => [n]
  | .opt n v => [n, v]
  | .file f => [f]

def render : List Item → List String
  | [] => []
  | i :: is => i.render ++ render is

structure Syntax where
  help : List String
  flags : List String
  opts : List String
  rejectDash : Bool

def Item.Valid (s : Syntax) : Item → Prop
  | .flag n => n ∈ s.flags
  | .opt n _ => n ∈ s.opts
  | .file f => f ∉ s.help ∧ f ∉ s.flags ∧ f ∉ s.opts ∧ (s.rejectDash = true → dash f = false)

instance (s : Syntax) (i : Item) : Decidable (i.Valid s) := by
  cases i <;> simp only [Item.Valid] <;> infer_instance

def files : List Item → List String
  | [] => []
  | .file f :: is => f :: files is
  | _ :: is => files is

def nonFiles : List Item → List Item
  | [] => []
  | .file _ :: is => nonFiles is
  | i :: is => i :: nonFiles is

def hasFlag (ns : List String) : List Item → Bool
  | [] => false
  | .flag n :: is => decide (n ∈ ns) || hasFlag ns is
  | _ :: is => hasFlag ns is

/-- The last item on which `f` is defined. -/
def lastSome {α : Type} (f : Item → Option α) : List Item → Option α
  | [] => none
  | i :: is => match lastSome f is with
    | some a => some a
    | none => f i

def optVal (ns : List String) : Item → Option String
  | .opt n v => if n ∈ ns then some v else none
  | _ => none

def hexasmSyn : Syntax :=
  { help := ["-h", "--help"], flags := ["--tokens", "--instrs"], opts := ["--output", "-o"], rejectDash := true }

def xcmpSyn : Syntax :=
  { help := ["-h", "--help"],
    flags := ["--tokens", "--tree", "--tree-opt", "--insts", "--insts-lowered", "--insts-optimised",
              "-S", "--insts-asm", "--memory-info"],
    opts := ["--output", "-o"], rejectDash := true }

def hexsimSyn : Syntax :=
  { help := ["-h", "--help"], flags := ["-d", "--dump", "-t", "--trace"], opts := ["--max-cycles"],
    rejectDash := false }

def xrunSyn : Syntax :=
  { help := ["-h", "--help"], flags := ["-t", "--trace"], opts := ["--max-cycles"], rejectDash := true }

def flagAction : Item → Option Action
  | .flag n => xcmpActionOf n
  | _ => none

/-- All `--max-cycles` values are acceptable to `std::stoull`. -/
def cyclesParse : List Item → Bool
  | [] => true
  | .opt _ v :: is => (stoull v).isSome && cyclesParse is
  | _ :: is => cyclesParse is

def cyclesVal : Item → Option Nat
  | .opt _ v => stoull v
  | _ => none

end Hex.Cli
