import HexVerif.Asm.Lexer
/-
  hexasm::Parser (hexasm.hpp 566-665) over the token sequence.  A directive is returned with
  the location recorded at the start of `parseDirective()`.
-/
namespace Hex.Asm

/-- `parseInteger()` with `n` the last token read and `rest` the tokens after it.
    Returns the `int` and the remaining tokens. -/
def parseInteger (n : LTok) (rest : List LTok) : Except Diag (I32 × List LTok) :=
  if n.tok = .MINUS then
    match rest with
    | m :: rest' =>
      if m.tok = .NUMBER then .ok (wrap32 (-(m.value : Int)), rest')   -- `-lexer.getNumber()` on unsigned, then to int
      else .error (.unexpectedToken m.loc .NUMBER)
    | [] => .error (.unexpectedToken n.loc .NUMBER)
  else if n.tok = .NUMBER then .ok (wrap32 n.value, rest)
  else .error (.unexpectedToken n.loc .NUMBER)

theorem parseInteger_length {n : LTok} {rest : List LTok} {v : I32} {r : List LTok}
    (h : parseInteger n rest = .ok (v, r)) : r.length ≤ rest.length := by
  unfold parseInteger at h
  split at h
  · split at h
    · split at h
      · simp only [Except.ok.injEq, Prod.mk.injEq] at h
        obtain ⟨_, rfl⟩ := h; simp
      · cases h
    · cases h
  · split at h
    · simp only [Except.ok.injEq, Prod.mk.injEq] at h
      obtain ⟨_, rfl⟩ := h; simp
    · cases h

/-- `parseProgram()`: `while (getNextToken() != END_OF_FILE) push_back(parseDirective())`. -/
def parseProgram : List LTok → Except Diag (List (Dir × Loc))
  | [] => .ok []
  | t :: rest =>
    let loc := t.loc
    match t.tok with
    | .END_OF_FILE => .ok []
    | .DATA =>
      match rest with
      | n :: rest' =>
        match h : parseInteger n rest' with
        | .ok (v, rest'') =>
          match parseProgram rest'' with
          | .ok ds => .ok ((.data v, loc) :: ds)
          | .error e => .error e
        | .error e => .error e
      | [] => .error (.unexpectedToken loc .NUMBER)
    | .FUNC | .PROC =>
      -- parseIdentifier(): getNextToken(); return lexer.getIdentifier()  (whatever the token was)
      let kind := if t.tok = .FUNC then LabelKind.func else LabelKind.proc
      match rest with
      | n :: rest' =>
        match parseProgram rest' with
        | .ok ds => .ok ((.label kind n.ident, loc) :: ds)
        | .error e => .error e
      | [] => .ok [(.label kind t.ident, loc)]
    | .IDENTIFIER =>
      match parseProgram rest with
      | .ok ds => .ok ((.label .plain t.ident, loc) :: ds)
      | .error e => .error e
    | .OPR =>
      match rest with
      | n :: rest' =>
        match n.tok.oprOpc with
        | some k =>
          match parseProgram rest' with
          | .ok ds => .ok ((.opr k, loc) :: ds)
          | .error e => .error e
        | none => .error (.invalidOpr loc n.tok)
      | [] => .error (.invalidOpr loc .END_OF_FILE)
    | tk =>
      match tk.opc with
      | none => .error (.unrecognisedToken loc tk)
      | some opc =>
        -- LDAM..LDBC take absolute label references, LDAP..BRN relative ones
        let relative := decide (opc ≥ 5)
        match rest with
        | n :: rest' =>
          if n.tok = .IDENTIFIER then
            match parseProgram rest' with
            | .ok ds => .ok ((.ref opc n.ident relative, loc) :: ds)
            | .error e => .error e
          else
            match h : parseInteger n rest' with
            | .ok (v, rest'') =>
              match parseProgram rest'' with
              | .ok ds => .ok ((.imm opc v, loc) :: ds)
              | .error e => .error e
            | .error e => .error e
        | [] => .error (.unexpectedToken loc .NUMBER)
termination_by ts => ts.length
decreasing_by
  all_goals simp_wf
  all_goals first
    | omega
    | (have := parseInteger_length h; simp at this ⊢; omega)

end Hex.Asm
