import HexVerif.Asm.Parser
/-
  hexasm::CodeGen (hexasm.hpp): encoding sizes, iterative label resolution, binary emission,
  listing and debug-symbol table — the algorithm of the repaired tree (fix commits for D1-D5):

    every label reference carries a stored encoding length that starts at 1 and only grows;
    one iteration lays the program out with the current lengths (assigning label values, a
    label that names a DATA word taking the aligned address), then recomputes every label
    operand from that layout and grows any reference whose operand no longer fits; the loop
    stops when an iteration grows nothing.

  Offsets and label values are C++ `int`s; the model uses unbounded `Nat`/`Int` and so assumes
  programs smaller than 2^31 bytes.
-/
namespace Hex.Asm

/-! ### Encoding sizes (hexasm.hpp `numNibbles`, `instrLen`) -/

/-- The `while (magnitude >= 16) { magnitude >>= 4; n++; }` loop. -/
def nibLoop (m n : Nat) : Nat :=
  if h : m ≥ 16 then nibLoop (m / 16) (n + 1) else n
termination_by m
decreasing_by omega

/-- `numNibbles(int value)`. -/
def numNibbles (value : I32) : Nat :=
  if value = 0 then 1
  else
    let magnitude := value.natAbs
    if value < 0 ∧ magnitude < 16 then 2
    else nibLoop magnitude 1

/-- `instrLen(int value)`: bytes needed for an operand (a negative value always needs an NFIX). -/
def instrLen (value : I32) : Nat :=
  if value < 0 ∧ numNibbles value = 1 then 2 else numNibbles value

/-! ### Layout -/

def align4 (n : Nat) : Nat := (n + 3) / 4 * 4

/-- `Directive::getSize()`; `len` is the stored length of an `InstrLabel`. -/
def sizeOf (d : Dir) (len : Nat) : Nat :=
  match d with
  | .data _ => 4
  | .label _ _ => 0
  | .imm _ v => instrLen v
  | .ref _ _ _ => len
  | .opr _ => 1

/-- Does this label directly precede (possibly through further labels) a DATA directive? -/
def namesData : List Dir → Bool
  | .label _ _ :: rest => namesData rest
  | .data _ :: _ => true
  | _ => false

/-- One layout pass: the byte offset recorded for each directive (for a label: its value), the
    labels in program order, and the offset after the last directive. -/
def layoutGo : List Dir → List Nat → Nat → List Nat × List (String × Nat) × Nat
  | [], _, off => ([], [], off)
  | d :: rest, lens, off =>
    let len := lens.headD 0
    match d with
    | .data _ =>
      let off1 := align4 off
      let (os, ls, e) := layoutGo rest lens.tail (off1 + 4)
      (off1 :: os, ls, e)
    | .label _ name =>
      let v := if namesData rest then align4 off else off
      let (os, ls, e) := layoutGo rest lens.tail off
      (v :: os, (name, v) :: ls, e)
    | _ =>
      let (os, ls, e) := layoutGo rest lens.tail (off + sizeOf d len)
      (off :: os, ls, e)

/-- `labelMap[name]->getValue()`: the map holds the LAST directive defining a name. -/
def lookupLabel (name : String) (labels : List (String × Nat)) : Option Nat :=
  match labels.reverse.find? (fun e => e.1 == name) with
  | some e => some e.2
  | none => none

/-- The operand pass: the value of every label reference under the given layout
    (0 for other directives). -/
def operandOf (d : Dir) (loc : Loc) (off len : Nat) (labels : List (String × Nat)) : Except Diag I32 :=
  match d with
  | .ref _ name relative =>
    match lookupLabel name labels with
    | none => .error (.unknownLabel loc name)
    | some l =>
      if relative then .ok ((l : Int) - ((off : Int) + (len : Int)))
      else if l % 4 ≠ 0 then .error (.unalignedLabel loc name)
      else .ok ((l / 4 : Nat) : Int)
  | _ => .ok 0

def operandsGo : List (Dir × Loc) → List Nat → List Nat → List (String × Nat) → Except Diag (List I32)
  | [], _, _, _ => .ok []
  | (d, loc) :: rest, lens, offs, labels =>
    match operandOf d loc (offs.headD 0) (lens.headD 0) labels with
    | .error e => .error e
    | .ok v =>
      match operandsGo rest lens.tail offs.tail labels with
      | .error e => .error e
      | .ok vs => .ok (v :: vs)

/-- Grow the stored length of every reference whose operand no longer fits. -/
def growLens : List Dir → List Nat → List I32 → List Nat
  | [], _, _ => []
  | d :: rest, lens, vals =>
    let len := lens.headD 0
    let len' := match d with
      | .ref _ _ _ => max len (instrLen (vals.headD 0))
      | _ => len
    len' :: growLens rest lens.tail vals.tail

/-- The result of label resolution. -/
structure Resolved where
  lens : List Nat
  offs : List Nat
  labels : List (String × Nat)
  vals : List I32
  endOff : Nat
  deriving Repr

/-- One iteration of the `while (changed)` loop: layout, operands, growth. -/
def iterate (p : List (Dir × Loc)) (lens : List Nat) : Except Diag (Resolved × List Nat) :=
  let dirs := p.map (·.1)
  let (offs, labels, e) := layoutGo dirs lens 0
  match operandsGo p lens offs labels with
  | .error err => .error err
  | .ok vals => .ok ({ lens, offs, labels, vals, endOff := e }, growLens dirs lens vals)

/-- `resolveLabels()`. `fuel` bounds the number of iterations; `Lemmas/AsmLayout.lean` proves
    that `7 * p.length + 1` always suffices (lengths only grow and never exceed 8). -/
def resolveFuel : Nat → List (Dir × Loc) → List Nat → Except Diag (Option Resolved)
  | 0, _, _ => .ok none
  | fuel + 1, p, lens =>
    match iterate p lens with
    | .error e => .error e
    | .ok (r, lens') => if lens' = lens then .ok (some r) else resolveFuel fuel p lens'

def initLens (p : List (Dir × Loc)) : List Nat := p.map fun _ => 1

def resolve (p : List (Dir × Loc)) : Except Diag (Option Resolved) :=
  resolveFuel (7 * p.length + 1) p (initLens p)

/-! ### Emission (hexasm.hpp `emitProgramBin`) -/

def toByte (x : Int) : Byte := BitVec.ofInt 8 x

/-- `(value >> (i*4)) & 0xF` on a C++ `int` (arithmetic shift). -/
def nibble (v : I32) (i : Nat) : Int := (v >>> (i * 4)) % 16

/-- The middle PFIX bytes, for i = k, k-1, ..., 1. -/
def middle (v : I32) : Nat → List Byte
  | 0 => []
  | i + 1 => toByte (0xE * 16 + nibble v (i + 1)) :: middle v i

/-- The bytes of an instruction with opcode `opc`, operand `v`, encoded in `size` bytes. -/
def encode (opc : Nat) (v : I32) (size : Nat) : List Byte :=
  let first : List Byte :=
    if size > 1 then [toByte ((if v < 0 then 0xF else 0xE) * 16 + nibble v (size - 1))] else []
  let mid : List Byte := if size > 2 then middle v (size - 2) else []
  first ++ mid ++ [toByte (((opc % 16 : Nat) : Int) * 16 + nibble v 0)]

/-- The four little-endian bytes of a DATA word. -/
def dataBytes (v : I32) : List Byte :=
  let w : Word := BitVec.ofInt 32 v
  [byteOfWord w 0, byteOfWord w 1, byteOfWord w 2, byteOfWord w 3]

/-- `emitProgramBin` without the trailing padding: bytes, and the debug table collected on the
    way; `byteOffset` is the running offset the C++ keeps. -/
def emitGo : List Dir → List Nat → List I32 → Nat → List Byte × List (String × Nat)
  | [], _, _, _ => ([], [])
  | d :: rest, lens, vals, byteOffset =>
    let len := lens.headD 0
    let val := vals.headD 0
    match d with
    | .label kind name =>
      let (bs, dbg) := emitGo rest lens.tail vals.tail byteOffset
      (bs, if kind = .plain then dbg else (name, byteOffset) :: dbg)
    | .data v =>
      let pad := align4 byteOffset - byteOffset
      let (bs, dbg) := emitGo rest lens.tail vals.tail (byteOffset + pad + 4)
      (List.replicate pad 0 ++ dataBytes v ++ bs, dbg)
    | .imm opc v =>
      let size := instrLen v
      let (bs, dbg) := emitGo rest lens.tail vals.tail (byteOffset + size)
      (encode opc v size ++ bs, dbg)
    | .ref opc _ _ =>
      -- `if (size > 0)`: a reference always has size >= 1
      let (bs, dbg) := emitGo rest lens.tail vals.tail (byteOffset + len)
      (encode opc val len ++ bs, dbg)
    | .opr k =>
      let (bs, dbg) := emitGo rest lens.tail vals.tail (byteOffset + 1)
      (encode 0xD k 1 ++ bs, dbg)

/-- Result of assembling a program. -/
structure Image where
  bytes : List Byte                 -- the image, padded to a multiple of 4
  sizeBytes : Nat                   -- `programSizeBytes`
  debug : List (String × Nat)
  resolved : Resolved
  deriving Repr

/-- `CodeGen(program)` + `emitProgramBin`. `none`: fuel exhausted (proved impossible). -/
def assemble (p : List (Dir × Loc)) : Except Diag (Option Image) :=
  match resolve p with
  | .error e => .error e
  | .ok none => .ok none
  | .ok (some r) =>
    let dirs := p.map (·.1)
    -- getProgramSize(): offset + size of the last directive (0 for an empty program)
    let programSize :=
      match dirs.getLast?, r.offs.getLast?, r.lens.getLast? with
      | some d, some o, some l => o + sizeOf d l
      | _, _, _ => 0
    let padding := align4 programSize - programSize
    let (bs, dbg) := emitGo dirs r.lens r.vals 0
    .ok (some { bytes := bs ++ List.replicate padding 0, sizeBytes := programSize + padding,
                debug := dbg, resolved := r })

def le32bytes (n : Nat) : List Byte :=
  let w : Word := BitVec.ofNat 32 n
  [byteOfWord w 0, byteOfWord w 1, byteOfWord w 2, byteOfWord w 3]

/-- `emitDebugInfo`. -/
def debugBytes (dbg : List (String × Nat)) : List Byte :=
  let strs := dbg.flatMap fun e => (e.1.toUTF8.toList.map fun b => BitVec.ofNat 8 b.toNat) ++ [0]
  let syms := (List.range dbg.length).zip dbg |>.flatMap fun (i, e) => le32bytes i ++ le32bytes e.2
  le32bytes dbg.length ++ strs ++ le32bytes dbg.length ++ syms

/-- `emitBin`: the file written by `hexasm`. -/
def fileBytes (img : Image) : List Byte :=
  le32bytes (img.sizeBytes / 4) ++ img.bytes ++ debugBytes img.debug

/-! ### Listing (hexasm.hpp `emitProgramText`) -/

def opcName : Nat → String
  | 0x0 => "LDAM" | 0x1 => "LDBM" | 0x2 => "STAM" | 0x3 => "LDAC" | 0x4 => "LDBC" | 0x5 => "LDAP"
  | 0x6 => "LDAI" | 0x7 => "LDBI" | 0x8 => "STAI" | 0x9 => "BR" | 0xA => "BRZ" | 0xB => "BRN"
  | _ => "?"

def oprName : Nat → String
  | 0 => "BRB" | 1 => "ADD" | 2 => "SUB" | 3 => "SVC" | _ => "?"

/-- `Directive::toString()`. -/
def dirText (d : Dir) (val : I32) : String :=
  match d with
  | .data v => s!"DATA {v}"
  | .label .plain n => n
  | .label .func n => s!"FUNC {n}"
  | .label .proc n => s!"PROC {n}"
  | .imm opc v => s!"{opcName opc} {v}"
  | .ref opc n _ => s!"{opcName opc} {n} ({val})"
  | .opr k => s!"OPR {oprName k}"

/-- One listing line: (byte offset, text, size). -/
def listingGo : List Dir → List Nat → List Nat → List I32 → List (Nat × String × Nat)
  | [], _, _, _ => []
  | d :: rest, offs, lens, vals =>
    (offs.headD 0, dirText d (vals.headD 0), sizeOf d (lens.headD 0)) ::
      listingGo rest offs.tail lens.tail vals.tail

def listing (p : List (Dir × Loc)) (img : Image) : List (Nat × String × Nat) :=
  let r := img.resolved
  let dirs := p.map (·.1)
  listingGo dirs r.offs r.lens r.vals ++
    [(0, s!"PADDING {img.bytes.length - (emitGo dirs r.lens r.vals 0).1.length}",
      img.bytes.length - (emitGo dirs r.lens r.vals 0).1.length)]

/-! ### Whole tool on a source buffer -/

inductive Outcome where
  | ok (img : Image) (p : List (Dir × Loc))
  | diag (d : Diag)
  | fuel                      -- proved unreachable

def run (src : List Byte) : Outcome :=
  match parseProgram (tokenize src) with
  | .error e => .diag e
  | .ok p =>
    match assemble p with
    | .error e => .diag e
    | .ok none => .fuel
    | .ok (some img) => .ok img p

end Hex.Asm
