import HexVerif.Asm.Syntax
/-
  hexasm::Lexer (hexasm.hpp 383-560) as a total function from the source bytes to the
  sequence of tokens `getNextToken()` would return, each with the lexer fields the parser
  reads after it (`identifier`, `value`, location counters).

  The C++ lexer pulls characters on demand with a one-character look-ahead (`lastChar`);
  here the same automaton consumes the byte list structurally, one byte per step, so that
  termination is by construction.  Quirks kept: a byte 0xFF compares equal to `EOF` (the
  `char` -1) and ends the token stream; `strtoul` saturates at 2^64-1 and is then truncated
  to `unsigned`; `currentCharNumber` counts `readChar()` calls since the last newline that
  was skipped as white space or ended a comment.
  `isspace/isalpha/isalnum/isdigit` are the "C" locale classes; bytes >= 0x80 are in none.
-/
namespace Hex.Asm

structure LTok where
  tok : Tok
  ident : String      -- `Lexer::identifier` after this token was read
  value : Nat         -- `Lexer::value` (unsigned, < 2^32) after this token was read
  loc : Loc           -- `Lexer::getLocation()` after this token was read
  deriving DecidableEq, Repr, Inhabited

def isSpace (c : Byte) : Bool := c = 32 || (9 ≤ c.toNat && c.toNat ≤ 13)
def isDigit (c : Byte) : Bool := 48 ≤ c.toNat && c.toNat ≤ 57
def isAlpha (c : Byte) : Bool := (65 ≤ c.toNat && c.toNat ≤ 90) || (97 ≤ c.toNat && c.toNat ≤ 122)
def isAlnum (c : Byte) : Bool := isAlpha c || isDigit c

/-- `Table::lookup` after `declareKeywords()`. -/
def keyword (s : String) : Tok :=
  match s with
  | "ADD" => .ADD | "BRN" => .BRN | "BR" => .BR | "BRB" => .BRB | "BRZ" => .BRZ
  | "DATA" => .DATA | "FUNC" => .FUNC | "LDAC" => .LDAC | "LDAI" => .LDAI | "LDAM" => .LDAM
  | "LDAP" => .LDAP | "LDBC" => .LDBC | "LDBI" => .LDBI | "LDBM" => .LDBM | "OPR" => .OPR
  | "PROC" => .PROC | "STAI" => .STAI | "STAM" => .STAM | "SUB" => .SUB | "SVC" => .SVC
  | _ => .IDENTIFIER

def strOfBytes (bs : List Byte) : String := String.ofList (bs.map fun b => Char.ofNat b.toNat)

/-- `(unsigned) std::strtoul(digits, nullptr, 10)` on a 64-bit `unsigned long`. -/
def strtoul32 (digits : List Byte) : Nat :=
  let n := digits.foldl (fun acc d => acc * 10 + (d.toNat - 48)) 0
  (if n ≥ 2^64 then 2^64 - 1 else n) % 2^32

/-- What the automaton is in the middle of. -/
inductive Mode where
  | start
  | comment
  | ident (acc : List Byte)     -- reversed
  | number (acc : List Byte)    -- reversed
  deriving Repr

/-- Mutable lexer fields carried along. -/
structure LexSt where
  ident : String := ""
  value : Nat := 0
  line : Nat := 0
  col : Nat := 1      -- counts the `readChar()` that fetched the current look-ahead

/-- Finish the token being accumulated (the look-ahead has already been counted in `col`). -/
def flush (m : Mode) (s : LexSt) : List LTok × LexSt :=
  match m with
  | .ident acc =>
    let id := strOfBytes acc.reverse
    let s' := { s with ident := id }
    ([{ tok := keyword id, ident := id, value := s.value, loc := ⟨s.line, s.col⟩ }], s')
  | .number acc =>
    let v := strtoul32 acc.reverse
    let s' := { s with value := v }
    ([{ tok := .NUMBER, ident := s.ident, value := v, loc := ⟨s.line, s.col⟩ }], s')
  | _ => ([], s)

def mk (t : Tok) (s : LexSt) (col : Nat) : LTok :=
  { tok := t, ident := s.ident, value := s.value, loc := ⟨s.line, col⟩ }

/-- The automaton. `c :: rest`: `c` is `lastChar`; `s.col` already counts the read that fetched it.
    Returns the tokens up to and including END_OF_FILE. -/
def lexGo : List Byte → Mode → LexSt → List LTok
  | [], m, s =>
    let (ts, s') := flush m s
    ts ++ [mk .END_OF_FILE s' s'.col]
  | c :: rest, m, s =>
    -- dispatch of `readToken()` on the look-ahead `c` when no token is in progress
    let startOn (s : LexSt) : List LTok :=
      if isSpace c then
        if c = 10 then lexGo rest .start { s with line := s.line + 1, col := 1 }
        else lexGo rest .start { s with col := s.col + 1 }
      else if c = 35 then lexGo rest .comment { s with col := s.col + 1 }          -- '#'
      else if isAlpha c then lexGo rest (.ident [c]) { s with col := s.col + 1 }
      else if isDigit c then lexGo rest (.number [c]) { s with col := s.col + 1 }
      else if c = 45 then                                                          -- '-'
        mk .MINUS s (s.col + 1) :: lexGo rest .start { s with col := s.col + 1 }
      else if c = 255 then [mk .END_OF_FILE s s.col]                               -- (char)0xFF == EOF
      else mk .NONE s (s.col + 1) :: lexGo rest .start { s with col := s.col + 1 }
    match m with
    | .start => startOn s
    | .comment =>
      if c = 10 then lexGo rest .start { s with line := s.line + 1, col := 1 }
      else if c = 255 then [mk .END_OF_FILE s s.col]
      else lexGo rest .comment { s with col := s.col + 1 }
    | .ident acc =>
      if isAlnum c || c = 95 then lexGo rest (.ident (c :: acc)) { s with col := s.col + 1 }
      else
        let (ts, s') := flush m s
        ts ++ startOn s'
    | .number acc =>
      if isDigit c then lexGo rest (.number (c :: acc)) { s with col := s.col + 1 }
      else
        let (ts, s') := flush m s
        ts ++ startOn s'

/-- The token sequence of a source buffer (`loadBuffer` then repeated `getNextToken()`). -/
def tokenize (src : List Byte) : List LTok := lexGo src .start {}

end Hex.Asm
