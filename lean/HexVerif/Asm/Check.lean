import HexVerif.Asm.CodeGen
/-
  The decidable property oracle for C04 / C05 / C17: given the directive list of a program and
  an image (any bytes — in the checks: the bytes the REAL assembler produced), decide whether
  the image is a correct assembly of the program.

  The walk decodes the image from offset 0 *with the ISA's prefix rules* in the order of the
  source directives; nothing from the assembler's layout is consulted.
-/
namespace Hex.Asm

/-- Execute prefix bytes from a clear operand register (hexb.pdf: `oreg = oreg | (inst & 0xf)`,
    then PFIX `oreg <<= 4`, NFIX `oreg = 0xFFFFFF00 | (oreg << 4)`), until the first
    non-prefix byte.  Returns its opcode, the operand delivered to it, the number of bytes
    consumed, and the rest.  At most 8 prefixes (`fuel`). -/
def decodeChain : Nat → Word → Nat → List Byte → Option (Nat × Word × Nat × List Byte)
  | _, _, _, [] => none
  | fuel, o, n, b :: rest =>
    let o' : Word := o ||| (b &&& 0xF).zeroExtend 32
    let opc := (b >>> 4).toNat
    if opc = 0xE then
      match fuel with
      | 0 => none
      | f + 1 => decodeChain f (o' <<< 4) (n + 1) rest
    else if opc = 0xF then
      match fuel with
      | 0 => none
      | f + 1 => decodeChain f (0xFFFFFF00 ||| (o' <<< 4)) (n + 1) rest
    else some (opc, o', n + 1, rest)

def decodeInstr (bs : List Byte) : Option (Nat × Word × Nat × List Byte) := decodeChain 8 0 0 bs

/-- What the walk found for one directive. -/
structure Found where
  start : Nat            -- byte offset where the directive's encoding starts (label: its address)
  size : Nat             -- bytes it occupies
  operand : Word         -- operand delivered (instructions), data value (DATA), 0 otherwise
  deriving DecidableEq, Repr

/-- Walk the image in directive order from byte offset `pos`. `none`: the image does not contain
    the program in source order (wrong opcode, non-zero padding, truncated...). -/
def walk : List Dir → List Byte → Nat → Option (List Found × List Byte × Nat)
  | [], bs, pos => some ([], bs, pos)
  | d :: rest, bs, pos =>
    match d with
    | .label _ _ =>
      let addr := if namesData rest then align4 pos else pos
      match walk rest bs pos with
      | some (fs, bs', e) => some (⟨addr, 0, 0⟩ :: fs, bs', e)
      | none => none
    | .data v =>
      let pad := align4 pos - pos
      if bs.take pad = List.replicate pad 0 ∧ (bs.drop pad).take 4 = dataBytes v ∧ pad + 4 ≤ bs.length then
        match walk rest (bs.drop (pad + 4)) (pos + pad + 4) with
        | some (fs, bs', e) => some (⟨pos + pad, 4, BitVec.ofInt 32 v⟩ :: fs, bs', e)
        | none => none
      else none
    | .imm opc v =>
      match decodeInstr bs with
      | some (opc', o, n, bs1) =>
        if opc' = opc ∧ o = BitVec.ofInt 32 v then
          match walk rest bs1 (pos + n) with
          | some (fs, bs', e) => some (⟨pos, n, o⟩ :: fs, bs', e)
          | none => none
        else none
      | none => none
    | .ref opc _ _ =>
      match decodeInstr bs with
      | some (opc', o, n, bs1) =>
        if opc' = opc then
          match walk rest bs1 (pos + n) with
          | some (fs, bs', e) => some (⟨pos, n, o⟩ :: fs, bs', e)
          | none => none
        else none
      | none => none
    | .opr k =>
      match bs with
      | b :: bs1 =>
        if b = BitVec.ofNat 8 (0xD0 + k) then
          match walk rest bs1 (pos + 1) with
          | some (fs, bs', e) => some (⟨pos, 1, BitVec.ofNat 32 k⟩ :: fs, bs', e)
          | none => none
        else none
      | [] => none

/-- Label addresses found by the walk, in program order. -/
def foundLabels : List Dir → List Found → List (String × Nat)
  | .label _ name :: ds, f :: fs => (name, f.start) :: foundLabels ds fs
  | _ :: ds, _ :: fs => foundLabels ds fs
  | _, _ => []

/-- Every label reference refers to its label: relative forms `next + operand = address (mod 2^32)`,
    absolute forms `address % 4 = 0 ∧ operand = address / 4`. -/
def refsOk (labels : List (String × Nat)) : List Dir → List Found → Bool
  | .ref _ name relative :: ds, f :: fs =>
    (match lookupLabel name labels with
     | none => false
     | some l =>
       if relative then BitVec.ofNat 32 (f.start + f.size) + f.operand = BitVec.ofNat 32 l
       else l % 4 = 0 ∧ f.operand = BitVec.ofNat 32 (l / 4)) && refsOk labels ds fs
  | _ :: ds, _ :: fs => refsOk labels ds fs
  | _, _ => true

/-- **The C05 predicate.**  `image` is a correct assembly of `dirs`: the directives appear in
    source order without overlap, DATA words are aligned and preceded only by zero padding,
    every immediate decodes to its value, every label reference refers to its label, and after
    the last directive there is only zero padding up to a multiple of four. -/
def checkImage (dirs : List Dir) (image : List Byte) : Bool :=
  match walk dirs image 0 with
  | none => false
  | some (fs, tail, e) =>
    refsOk (foundLabels dirs fs) dirs fs &&
    decide (tail = List.replicate tail.length 0) && decide (tail.length < 4) &&
    decide (image.length % 4 = 0) && decide (e + tail.length = image.length)

/-- The file header word equals the image size in words. -/
def checkHeader (file : List Byte) : Bool :=
  match file with
  | a :: b :: c :: d :: rest =>
    -- the image proper is the first `4 * header` bytes after the header
    let n := (wordOfBytes a b c d).toNat
    decide (4 * n ≤ rest.length)
  | _ => false

/-- **The C17 predicate.** A listing (offset, size per directive, as printed) describes the
    image: each instruction/DATA line shows the offset where the walk found the directive and
    the number of bytes it occupies; reference lines show the operand actually encoded. -/
def listingOk : List Dir → List Found → List (Nat × String × Nat) → Bool
  | d :: ds, f :: fs, (off, text, size) :: ls =>
    (match d with
     | .label _ _ => true     -- C17 speaks about instructions and DATA
     | .ref _ _ _ => off = f.start ∧ size = f.size ∧ text = dirText d f.operand.toInt
     | _ => off = f.start ∧ size = f.size ∧ text = dirText d 0) && listingOk ds fs ls
  | [], [], _ => true
  | _, _, _ => false

def checkListing (dirs : List Dir) (image : List Byte) (l : List (Nat × String × Nat)) : Bool :=
  match walk dirs image 0 with
  | none => false
  | some (fs, _, _) => listingOk dirs fs l

end Hex.Asm
