import HexVerif.Basic
/-
  hexasm.hpp: tokens and directives.
-/
namespace Hex.Asm

/-- `hexasm::Token` (the lexer tokens; the lowering tokens are never produced by the lexer). -/
inductive Tok where
  | NUMBER | MINUS | DATA | PROC | FUNC
  | LDAM | LDBM | STAM | LDAC | LDBC | LDAP | LDAI | LDBI | STAI | BR | BRZ | BRN
  | BRB | SVC | ADD | SUB | OPR | IDENTIFIER | END_OF_FILE | NONE
  deriving DecidableEq, Repr, Inhabited

/-- `tokenEnumStr`. -/
def Tok.str : Tok → String
  | .NUMBER => "NUMBER" | .MINUS => "MINUS" | .DATA => "DATA" | .PROC => "PROC" | .FUNC => "FUNC"
  | .LDAM => "LDAM" | .LDBM => "LDBM" | .STAM => "STAM" | .LDAC => "LDAC" | .LDBC => "LDBC"
  | .LDAP => "LDAP" | .LDAI => "LDAI" | .LDBI => "LDBI" | .STAI => "STAI" | .BR => "BR"
  | .BRZ => "BRZ" | .BRN => "BRN" | .BRB => "BRB" | .SVC => "SVC" | .ADD => "ADD" | .SUB => "SUB"
  | .OPR => "OPR" | .IDENTIFIER => "IDENTIFIER" | .END_OF_FILE => "END_OF_FILE" | .NONE => "NONE"

/-- `tokenToInstr` for the twelve operand-taking opcodes: the ISA opcode number. -/
def Tok.opc : Tok → Option Nat
  | .LDAM => some 0x0 | .LDBM => some 0x1 | .STAM => some 0x2 | .LDAC => some 0x3 | .LDBC => some 0x4
  | .LDAP => some 0x5 | .LDAI => some 0x6 | .LDBI => some 0x7 | .STAI => some 0x8 | .BR => some 0x9
  | .BRZ => some 0xA | .BRN => some 0xB | _ => none

/-- `tokenToOprInstr`. -/
def Tok.oprOpc : Tok → Option Nat
  | .BRB => some 0 | .ADD => some 1 | .SUB => some 2 | .SVC => some 3 | _ => none

/-- A source location as the lexer counts it (`currentLineNumber`, `currentCharNumber`). -/
structure Loc where
  line : Nat
  col : Nat
  deriving DecidableEq, Repr, Inhabited

/-- C++ `int`. Values are kept in [-2^31, 2^31). -/
abbrev I32 := Int

def wrap32 (x : Int) : I32 := ((x + 2^31) % 2^32) - 2^31

/-- Which kind of label directive. -/
inductive LabelKind where
  | plain | func | proc
  deriving DecidableEq, Repr

/-- The directives the parser builds (`Data`, `Label`/`Func`/`Proc`, `InstrImm`, `InstrLabel`,
    `InstrOp`); `opc` is the ISA opcode (0..0xB), `k` the OPR sub-opcode (0..3). -/
inductive Dir where
  | data (v : I32)
  | label (kind : LabelKind) (name : String)
  | imm (opc : Nat) (v : I32)
  | ref (opc : Nat) (name : String) (relative : Bool)
  | opr (k : Nat)
  deriving DecidableEq, Repr

/-- Diagnostics, by C++ exception class. -/
inductive Diag where
  | unrecognisedToken (loc : Loc) (t : Tok)
  | unexpectedToken (loc : Loc) (expected : Tok)
  | invalidOpr (loc : Loc) (t : Tok)
  | unknownLabel (loc : Loc) (name : String)
  | unalignedLabel (loc : Loc) (name : String)
  deriving DecidableEq, Repr

end Hex.Asm
