import HexVerif.Basic
/-!
  Abstract syntax of X, in the shape that xcmp's parser (xcmp.hpp `Parser`, 1254-1663) accepts.

  program    = { global-decl } { proc-decl }
  global-decl= "val" name "=" expr ";" | "var" name ";" | "array" name "[" expr "]" ";"
  proc-decl  = ("proc"|"func") name "(" [ formal { "," formal } ] ")" "is" { local-decl } statement
  local-decl = "val" name "=" expr ";" | "var" name ";"
  formal     = "val" name | "array" name | "proc" name | "func" name
  statement  = "skip" | "stop" | "return" expr | "if" expr "then" statement "else" statement
             | "while" expr "do" statement | "{" statement { ";" statement } "}"
             | name ":=" expr | name "[" expr "]" ":=" expr
             | name "(" [ expr { "," expr } ] ")" | number "(" [ expr { "," expr } ] ")"
  expr       = "-" element | "~" element | element binop element | element
               (an associative operator `+ and or` may be chained: a + b + c = a + (b + c))
  element    = name | name "[" expr "]" | name "(" actuals ")" | number "(" actuals ")"
             | number | string | "true" | "false" | "(" expr ")"

  Numbers (decimal, `#hex`, character constants) all arrive as 32-bit words.  Parentheses and
  operator chains leave no trace in the tree, exactly as in xcmp's AST.
-/
namespace Hex.X

inductive BinOp where
  | plus | minus | eq | ne | ls | le | gr | ge | and | or
  deriving DecidableEq, Repr, Inhabited

inductive UnOp where
  | neg | not
  deriving DecidableEq, Repr, Inhabited

inductive Expr where
  | num (v : Word)                              -- decimal / #hex / 'c'
  | bool (b : Bool)                             -- true / false
  | str (bytes : List Byte)                     -- "..." after escape processing
  | name (n : String)                           -- variable, val, array or formal
  | sub (n : String) (i : Expr)                 -- n[i]
  | call (f : String) (args : List Expr)        -- f(args): user function, or system call through a val name
  | syscall (id : Nat) (args : List Expr)       -- 0(..) 1(..) 2(..): a number in name position
  | un (op : UnOp) (e : Expr)
  | bin (op : BinOp) (l r : Expr)
  deriving Repr, Inhabited

inductive Stmt where
  | skip
  | stop
  | ret (e : Expr)
  | ite (c : Expr) (t e : Stmt)
  | while (c : Expr) (body : Stmt)
  | seq (ss : List Stmt)                        -- { s1; ...; sn }, n >= 1 in xcmp
  | assign (n : String) (e : Expr)
  | assignSub (n : String) (i e : Expr)
  | call (f : String) (args : List Expr)
  | syscall (id : Nat) (args : List Expr)
  deriving Repr, Inhabited

inductive Decl where
  | val (n : String) (e : Expr)
  | var (n : String)
  | array (n : String) (size : Expr)            -- global scope only
  deriving Repr, Inhabited

def Decl.name : Decl → String
  | .val n _ => n | .var n => n | .array n _ => n

inductive Formal where
  | val (n : String)
  | array (n : String)
  | proc (n : String)
  | func (n : String)
  deriving Repr, Inhabited

def Formal.name : Formal → String
  | .val n => n | .array n => n | .proc n => n | .func n => n

structure Proc where
  isFunc : Bool
  name : String
  formals : List Formal
  locals : List Decl
  body : Stmt
  deriving Repr, Inhabited

structure Program where
  globals : List Decl
  procs : List Proc
  deriving Repr, Inhabited

end Hex.X
