import HexVerif.X.Syntax
import HexVerif.Isa.Spec
/-!
  Reference semantics of X (docs/PDFs/xhexnotes.pdf pp. 1-8), as a fuelled, total, deterministic
  big-step interpreter `X.run : Program → Input → Nat → Result`.

  This file is SPECIFICATION.  It is the oracle of property C01 and follows the rules fixed in
  DESIGN.md §6 C01: whenever the X definition is silent, or the quantifier of C01 excludes a case,
  the result is `undefined reason` - which only shrinks the tested domain and can never raise an
  alarm.  The cases:

  * values are 32-bit two's complement; `+`, `-`, monadic `-` and the implicit difference of
    `= ~= < <= > >=` that overflow are undefined (for comparisons both `x-y` and `y-x` must fit,
    so the oracle does not depend on which operand order an implementation subtracts in);
  * operands of `and`, `or`, `~` and conditions of `if`/`while` must be 0 or 1; `and`/`or`
    evaluate left to right with short circuit (X fixes this);
  * for every other diadic operator, for actual lists and for `a[i] := e`: if one position
    contains a call of an *impure* callee (a system call, or a procedure/function that transitively
    performs a system call, executes `stop`, or assigns anything but its own local variables) and
    another position is not a constant expression, the evaluation order X leaves open matters and
    the result is undefined.  Otherwise the order cannot matter and the interpreter goes left to right;
  * reading a variable or array element never assigned; a subscript outside `0 ≤ s < n`; an array
    (or string) used where an integer is needed and vice versa; assignment to anything that is not a
    variable or an element of a declared array (so also: to a `val` formal, to a string literal);
    a function that finishes without `return`; a `return` that is not the final process executed by
    its function, or that occurs in a procedure; the value of a procedure or of system calls 0/1
    used as an operand; a function used as a statement; wrong number or kind of actuals; recursion
    deeper than `maxDepth`; more than `fuel` evaluation steps - all undefined;
  * `stop` and return from `main` exit with 0; `0(v)` exits with `v`; `1(b,s)` writes `b & 0xFF` to
    stream `s`; `2(s)` reads a byte (255 at end of input); streams are routed as in `Isa.Spec`
    (`simout`/`simin`: `s < 256` is stdio, otherwise file slot `(s >> 8) & 7`);
  * a string literal of `n < 256` ASCII characters denotes the (read-only) packed array: byte 0 of
    word 0 is `n`, the characters follow, four bytes per word, least significant byte first;
  * the supported syntactic subset (`checkProgram`, `checkProcs`): names declared once per scope, no
    `proc`/`func` formals, `val`s and array lengths are constant expressions over literals and
    *earlier* `val`s, `main` is a procedure without formals; every name used is declared and used
    according to its kind (variables assigned, arrays subscripted, functions called in expressions
    and procedures as statements, with as many actuals of the right kind as formals; system calls
    0..2 with 1/2/1 integer actuals), also in code that is never executed.
-/
namespace Hex.X
open Hex.Isa (IOSt Ev)

/-- Stack budget of the C01 quantifier: nesting depth of active procedure instances. -/
def maxDepth : Nat := 64
/-- Total words of global arrays a supported program may declare. -/
def maxArrayWords : Nat := 100000

/-! ### Values and state -/

inductive ArrRef where
  | glob (id : Nat)                 -- a declared global array
  | lit (words : List Word)         -- the value of a string literal (immutable)
  deriving Repr, Inhabited

inductive Val where
  | int (w : Word)
  | arr (r : ArrRef)
  deriving Repr, Inhabited

/-- What a name of the current procedure instance stands for. -/
inductive LBind where
  | val (w : Word)                  -- local `val`
  | var (v : Option Word)           -- local `var` (none = never assigned)
  | valF (w : Word)                 -- `val` formal
  | arrF (r : ArrRef)               -- `array` formal
  deriving Repr, Inhabited

/-- What a global name stands for. -/
inductive GBind where
  | val (w : Word)
  | var
  | array (id : Nat)
  | proc (p : Proc)
  deriving Repr, Inhabited

structure Ctx where
  genv : List (String × GBind)
  impure : List String              -- names of impure procedures/functions
  limit : Nat                       -- step budget

structure St where
  gvars : List (String × Option Word)
  arrays : Array (Array (Option Word))
  locals : List (String × LBind)
  io : IOSt
  calls : List String               -- call log, newest first
  steps : Nat
  depth : Nat

inductive Flow where
  | normal
  | ret (w : Word)

/-- Outcome of evaluating/executing a phrase. -/
inductive Res (α : Type) where
  | ok (a : α) (s : St)
  | exit (code : Word) (s : St)     -- the program has terminated (`0(v)`, `stop`)
  | undef (why : String)

@[inline] def Res.bind {α β} (r : Res α) (f : α → St → Res β) : Res β :=
  match r with
  | .ok a s => f a s
  | .exit c s => .exit c s
  | .undef w => .undef w

@[inline] def liftE {α} (e : Except String α) (s : St) : Res α :=
  match e with
  | .ok a => .ok a s
  | .error w => .undef w

/-! ### Arithmetic -/

def inRange (r : Int) : Bool := decide (-2147483648 ≤ r ∧ r ≤ 2147483647)

def b2w (b : Bool) : Word := if b then 1 else 0

def isBool (w : Word) : Bool := w == 0 || w == 1

/-- `+ - = ~= < <= > >=` on two integers; overflow of the sum/difference is undefined. -/
def arith (op : BinOp) (a b : Word) : Except String Word :=
  let x := a.toInt
  let y := b.toInt
  let cmp (r : Bool) : Except String Word :=
    if inRange (x - y) && inRange (y - x) then .ok (b2w r) else .error "comparison difference overflows"
  match op with
  | .plus => if inRange (x + y) then .ok (a + b) else .error "overflow in +"
  | .minus => if inRange (x - y) then .ok (a - b) else .error "overflow in -"
  | .eq => cmp (x == y)
  | .ne => cmp (x != y)
  | .ls => cmp (decide (x < y))
  | .le => cmp (decide (x ≤ y))
  | .gr => cmp (decide (x > y))
  | .ge => cmp (decide (x ≥ y))
  | .and | .or => .error "internal: logical operator in arith"

def neg (a : Word) : Except String Word :=
  if inRange (0 - a.toInt) then .ok (0 - a) else .error "overflow in monadic -"

/-- Packed value of a string literal. -/
def packString (bytes : List Byte) : Except String (List Word) :=
  if bytes.length ≥ 256 then .error "string literal longer than 255 characters"
  else .ok (wordsOfBytes (BitVec.ofNat 8 bytes.length :: bytes))

/-! ### Constant expressions (`val` definitions, array lengths) -/

/-- Value of a constant expression over literals and the given `val`s; anything else is not constant. -/
def constEval (vals : List (String × Word)) : Expr → Except String Word
  | .num v => .ok v
  | .bool b => .ok (b2w b)
  | .name n => match vals.lookup n with
    | some w => .ok w
    | none => .error s!"{n} is not a constant defined earlier"
  | .un .neg e => do let a ← constEval vals e; neg a
  | .un .not e => do
    let a ← constEval vals e
    if isBool a then .ok (b2w (a == 0)) else .error "operand of ~ is not true/false"
  | .bin .and l r => do
    let a ← constEval vals l
    let b ← constEval vals r
    if isBool a && isBool b then .ok (b2w (a == 1 && b == 1)) else .error "operand of and is not true/false"
  | .bin .or l r => do
    let a ← constEval vals l
    let b ← constEval vals r
    if isBool a && isBool b then .ok (b2w (a == 1 || b == 1)) else .error "operand of or is not true/false"
  | .bin op l r => do
    let a ← constEval vals l
    let b ← constEval vals r
    arith op a b
  | _ => .error "expression is not constant"

/-! ### Static analysis: impure callees, constant positions -/

mutual
/-- Does the expression contain a call of an impure callee (`imp f` decides for the name `f`)? -/
def impE (imp : String → Bool) : Expr → Bool
  | .num _ | .bool _ | .str _ | .name _ => false
  | .sub _ i => impE imp i
  | .call f args => imp f || impL imp args
  | .syscall _ _ => true
  | .un _ e => impE imp e
  | .bin _ l r => impE imp l || impE imp r
def impL (imp : String → Bool) : List Expr → Bool
  | [] => false
  | e :: es => impE imp e || impL imp es
end

mutual
/-- May executing the statement have an effect beyond the local variables (`isLocalVar`)? -/
def impS (imp : String → Bool) (isLocalVar : String → Bool) : Stmt → Bool
  | .skip => false
  | .stop => true
  | .ret e => impE imp e
  | .ite c t e => impE imp c || impS imp isLocalVar t || impS imp isLocalVar e
  | .while c b => impE imp c || impS imp isLocalVar b
  | .seq ss => impSL imp isLocalVar ss
  | .assign n e => !isLocalVar n || impE imp e
  | .assignSub _ _ _ => true
  | .call f args => imp f || impL imp args
  | .syscall _ _ => true
def impSL (imp : String → Bool) (isLocalVar : String → Bool) : List Stmt → Bool
  | [] => false
  | s :: ss => impS imp isLocalVar s || impSL imp isLocalVar ss
end

def Proc.localNames (p : Proc) : List String := p.formals.map Formal.name ++ p.locals.map Decl.name

def Proc.isLocalVar (p : Proc) (n : String) : Bool :=
  p.locals.any fun d => match d with | .var m => m == n | _ => false

/-- One round of the impurity fixpoint: a callee is impure under `cur` if its body may have an
    effect, where a called name counts as impure unless it is a known pure procedure. -/
def impureStep (P : Program) (cur : List String) : List String :=
  let procNames := P.procs.map (·.name)
  (P.procs.filter fun p =>
    let imp := fun f => cur.contains f || !procNames.contains f || p.localNames.contains f
    impS imp p.isLocalVar p.body).map (·.name)

def impureFix (P : Program) : Nat → List String → List String
  | 0, cur => cur
  | n + 1, cur => impureFix P n (impureStep P cur)

/-- Names of the impure procedures and functions of `P` (least fixpoint; `|procs|+1` rounds suffice). -/
def impureProcs (P : Program) : List String := impureFix P (P.procs.length + 1) []

/-- Is `e` a constant expression (literals, `val` names, operators), given which names are `val`s? -/
def isConstE (isVal : String → Bool) : Expr → Bool
  | .num _ | .bool _ => true
  | .name n => isVal n
  | .un _ e => isConstE isVal e
  | .bin _ l r => isConstE isVal l && isConstE isVal r
  | _ => false

def isValName (ctx : Ctx) (st : St) (n : String) : Bool :=
  match st.locals.lookup n with
  | some (.val _) => true
  | some _ => false
  | none => match ctx.genv.lookup n with
    | some (.val _) => true
    | _ => false

/-- Is a call of the name `f`, made from the current scope, a call of an impure callee? -/
def isImpureCallee (ctx : Ctx) (st : St) (f : String) : Bool :=
  match st.locals.lookup f with
  | some _ => true
  | none => match ctx.genv.lookup f with
    | some (.proc _) => ctx.impure.contains f
    | _ => true

/-- The rule for positions whose evaluation order X leaves open: fine iff no position contains an
    impure call, or the position that does is the only non-constant one. -/
def orderOk (ctx : Ctx) (st : St) (positions : List Expr) : Bool :=
  let nImp := (positions.filter (impE (isImpureCallee ctx st))).length
  let nNonConst := (positions.filter (fun e => !isConstE (isValName ctx st) e)).length
  nImp == 0 || nNonConst ≤ 1

/-! ### Names, variables, arrays -/

def setAssoc {β} (l : List (String × β)) (n : String) (v : β) : List (String × β) :=
  match l with
  | [] => []
  | (k, x) :: t => if k == n then (k, v) :: t else (k, x) :: setAssoc t n v

def readName (ctx : Ctx) (st : St) (n : String) : Except String Val :=
  match st.locals.lookup n with
  | some (.val w) => .ok (.int w)
  | some (.var (some w)) => .ok (.int w)
  | some (.var none) => .error s!"read of unassigned variable {n}"
  | some (.valF w) => .ok (.int w)
  | some (.arrF r) => .ok (.arr r)
  | none =>
    match ctx.genv.lookup n with
    | some (.val w) => .ok (.int w)
    | some .var =>
      match st.gvars.lookup n with
      | some (some w) => .ok (.int w)
      | _ => .error s!"read of unassigned variable {n}"
    | some (.array id) => .ok (.arr (.glob id))
    | some (.proc _) => .error s!"procedure name {n} used as a value"
    | none => .error s!"unknown name {n}"

def writeName (ctx : Ctx) (st : St) (n : String) (w : Word) : Except String St :=
  match st.locals.lookup n with
  | some (.var _) => .ok { st with locals := setAssoc st.locals n (.var (some w)) }
  | some _ => .error s!"assignment to {n}, which is not a variable"
  | none =>
    match ctx.genv.lookup n with
    | some .var => .ok { st with gvars := setAssoc st.gvars n (some w) }
    | some _ => .error s!"assignment to {n}, which is not a variable"
    | none => .error s!"unknown name {n}"

def arrayOf (ctx : Ctx) (st : St) (n : String) : Except String ArrRef :=
  match readName ctx st n with
  | .ok (.arr r) => .ok r
  | .ok (.int _) => .error s!"subscript applied to {n}, which is not an array"
  | .error w => .error w

def arrGet (st : St) (r : ArrRef) (i : Word) : Except String Word :=
  let idx := i.toInt
  match r with
  | .glob id =>
    match st.arrays[id]? with
    | some cells =>
      if 0 ≤ idx ∧ idx < cells.size then
        match cells[idx.toNat]? with
        | some (some w) => .ok w
        | _ => .error "read of unassigned array element"
      else .error "subscript out of range"
    | none => .error "internal: bad array id"
  | .lit ws =>
    if 0 ≤ idx ∧ idx < ws.length then
      match ws[idx.toNat]? with
      | some w => .ok w
      | none => .error "subscript out of range"
    else .error "subscript out of range"

def arrSet (st : St) (r : ArrRef) (i : Word) (v : Word) : Except String St :=
  let idx := i.toInt
  match r with
  | .glob id =>
    match st.arrays[id]? with
    | some cells =>
      if 0 ≤ idx ∧ idx < cells.size then
        .ok { st with arrays := st.arrays.setIfInBounds id (cells.setIfInBounds idx.toNat (some v)) }
      else .error "subscript out of range"
    | none => .error "internal: bad array id"
  | .lit _ => .error "assignment to an element of a string literal"

/-! ### Calls -/

inductive Callee where
  | sys (id : Word)
  | user (p : Proc)
  | bad (why : String)

def resolveCallee (ctx : Ctx) (st : St) (f : String) : Callee :=
  match st.locals.lookup f with
  | some (.val w) => .sys w
  | some _ => .bad s!"call of {f}, which is not a procedure"
  | none =>
    match ctx.genv.lookup f with
    | some (.val w) => .sys w
    | some (.proc p) => .user p
    | some _ => .bad s!"call of {f}, which is not a procedure"
    | none => .bad s!"unknown name {f}"

/-- The three system calls. `none` = no value (exit never returns, put has none). -/
def doSyscall (id : Word) (args : List Val) (st : St) : Res (Option Word) :=
  if id = 0 then
    match args with
    | [.int v] => .exit v st
    | _ => .undef "system call 0 (exit) needs one integer actual"
  else if id = 1 then
    match args with
    | [.int b, .int s] => .ok none { st with io := Isa.simout st.io b s }
    | _ => .undef "system call 1 (put) needs two integer actuals"
  else if id = 2 then
    match args with
    | [.int s] => let (v, io') := Isa.simin st.io s; .ok (some v) { st with io := io' }
    | _ => .undef "system call 2 (get) needs one integer actual"
  else .undef "invalid system call number"

/-- Bind formals to actuals: kinds must agree. -/
def bindFormals : List Formal → List Val → Except String (List (String × LBind))
  | [], [] => .ok []
  | .val n :: fs, .int w :: vs => do let r ← bindFormals fs vs; .ok ((n, .valF w) :: r)
  | .array n :: fs, .arr a :: vs => do let r ← bindFormals fs vs; .ok ((n, .arrF a) :: r)
  | .val n :: _, .arr _ :: _ => .error s!"array passed for val formal {n}"
  | .array n :: _, .int _ :: _ => .error s!"integer passed for array formal {n}"
  | .proc n :: _, _ => .error s!"proc formal {n} is not supported"
  | .func n :: _, _ => .error s!"func formal {n} is not supported"
  | _, _ => .error "wrong number of actuals"

def globalVals (genv : List (String × GBind)) : List (String × Word) :=
  genv.filterMap fun (n, b) => match b with | .val w => some (n, w) | _ => none

/-- Local declarations of a fresh instance. `vals` = constants visible so far (locals shadow globals). -/
def bindLocals (vals : List (String × Word)) : List Decl → Except String (List (String × LBind))
  | [] => .ok []
  | .val n e :: ds => do
    let w ← constEval vals e
    let r ← bindLocals ((n, w) :: vals) ds
    .ok ((n, .val w) :: r)
  | .var n :: ds => do let r ← bindLocals (vals.filter (·.1 != n)) ds; .ok ((n, .var none) :: r)
  | .array n _ :: _ => .error s!"local array {n} is not supported"

@[inline] def tick (ctx : Ctx) (st : St) : Option St :=
  if st.steps ≥ ctx.limit then none else some { st with steps := st.steps + 1 }

def asInt (what : String) (r : Res Val) : Res Word :=
  r.bind fun v s => match v with
    | .int w => .ok w s
    | .arr _ => .undef s!"array used as an integer ({what})"

def asBool (what : String) (r : Res Val) : Res Word :=
  (asInt what r).bind fun w s => if isBool w then .ok w s else .undef s!"{what} is not true/false"

/-! ### Static well-formedness: names, kinds and arities (the valid programs of the quantifier) -/

/-- Static type of an expression: does it denote an array (array name, array formal, string)? -/
def exprIsArray (genv : List (String × GBind)) (locals : List (String × LBind)) : Expr → Bool
  | .str _ => true
  | .name n =>
    match locals.lookup n with
    | some (.arrF _) => true
    | some _ => false
    | none => match genv.lookup n with
      | some (.array _) => true
      | _ => false
  | _ => false

def sysArity (id : Word) : Option Nat :=
  if id = 0 then some 1 else if id = 1 then some 2 else if id = 2 then some 1 else none

/-- What a called name denotes in the scope given by `locals`. -/
def staticCallee (genv : List (String × GBind)) (locals : List (String × LBind)) (f : String) : Callee :=
  match locals.lookup f with
  | some (.val w) => .sys w
  | some _ => .bad s!"call of {f}, which is not a procedure"
  | none =>
    match genv.lookup f with
    | some (.val w) => .sys w
    | some (.proc p) => .user p
    | some _ => .bad s!"call of {f}, which is not a procedure"
    | none => .bad s!"unknown name {f}"

def chkKinds (genv : List (String × GBind)) (locals : List (String × LBind)) (f : String) :
    List Formal → List Expr → Except String Unit
  | [], [] => .ok ()
  | .val _ :: fs, a :: as =>
    if exprIsArray genv locals a then .error s!"array passed for a val formal of {f}" else chkKinds genv locals f fs as
  | .array _ :: fs, a :: as =>
    if exprIsArray genv locals a then chkKinds genv locals f fs as else .error s!"integer passed for an array formal of {f}"
  | .proc _ :: _, _ | .func _ :: _, _ => .error "proc/func formals are not supported"
  | _, _ => .error s!"wrong number of actuals in a call of {f}"

mutual
def chkE (genv : List (String × GBind)) (locals : List (String × LBind)) : Expr → Except String Unit
  | .num _ | .bool _ => .ok ()
  | .str bs => do let _ ← packString bs; pure ()
  | .name n =>
    match locals.lookup n with
    | some _ => .ok ()
    | none => match genv.lookup n with
      | some (.proc _) => .error s!"procedure name {n} used as a value"
      | some _ => .ok ()
      | none => .error s!"unknown name {n}"
  | .sub n i => do
    if !exprIsArray genv locals (.name n) then throw s!"subscript applied to {n}, which is not an array"
    chkE genv locals i
    if exprIsArray genv locals i then throw "array used as a subscript"
  | .un _ e => do
    chkE genv locals e
    if exprIsArray genv locals e then throw "array used as an operand"
  | .bin _ l r => do
    chkE genv locals l
    chkE genv locals r
    if exprIsArray genv locals l || exprIsArray genv locals r then throw "array used as an operand"
  | .syscall id args => do
    if id != 2 then throw "value of system call 0/1 (or invalid system call) used as an operand"
    chkL genv locals args
    if args.length != 1 || args.any (exprIsArray genv locals) then throw "system call 2 (get) needs one integer actual"
  | .call f args => do
    chkL genv locals args
    match staticCallee genv locals f with
    | .bad why => throw why
    | .sys id =>
      if id != 2 then throw "value of system call 0/1 (or invalid system call) used as an operand"
      if args.length != 1 || args.any (exprIsArray genv locals) then throw "system call 2 (get) needs one integer actual"
    | .user p =>
      if !p.isFunc then throw s!"value of procedure {f} used as an operand"
      chkKinds genv locals f p.formals args
def chkL (genv : List (String × GBind)) (locals : List (String × LBind)) : List Expr → Except String Unit
  | [] => .ok ()
  | e :: es => do chkE genv locals e; chkL genv locals es
end

def isVarName (genv : List (String × GBind)) (locals : List (String × LBind)) (n : String) : Bool :=
  match locals.lookup n with
  | some (.var _) => true
  | some _ => false
  | none => match genv.lookup n with
    | some .var => true
    | _ => false

mutual
def chkS (genv : List (String × GBind)) (locals : List (String × LBind)) (inFunc : Bool) : Stmt → Except String Unit
  | .skip | .stop => .ok ()
  | .ret e => do
    if !inFunc then throw "return in a procedure"
    chkE genv locals e
    if exprIsArray genv locals e then throw "array returned"
  | .ite c t e => do
    chkE genv locals c
    if exprIsArray genv locals c then throw "array used as a condition"
    chkS genv locals inFunc t
    chkS genv locals inFunc e
  | .while c b => do
    chkE genv locals c
    if exprIsArray genv locals c then throw "array used as a condition"
    chkS genv locals inFunc b
  | .seq ss => chkSL genv locals inFunc ss
  | .assign n e => do
    if !isVarName genv locals n then throw s!"assignment to {n}, which is not a variable"
    chkE genv locals e
    if exprIsArray genv locals e then throw "array assigned to a variable"
  | .assignSub n i e => do
    if !exprIsArray genv locals (.name n) then throw s!"subscript applied to {n}, which is not an array"
    chkE genv locals i
    chkE genv locals e
    if exprIsArray genv locals i || exprIsArray genv locals e then throw "array used as an integer"
  | .syscall id args => do
    chkL genv locals args
    match sysArity (BitVec.ofNat 32 id) with
    | none => throw "invalid system call number"
    | some k => if id ≥ 3 || args.length != k || args.any (exprIsArray genv locals) then throw "wrong actuals of a system call"
  | .call f args => do
    chkL genv locals args
    match staticCallee genv locals f with
    | .bad why => throw why
    | .sys id =>
      match sysArity id with
      | none => throw "invalid system call number"
      | some k => if args.length != k || args.any (exprIsArray genv locals) then throw "wrong actuals of a system call"
    | .user p =>
      if p.isFunc then throw s!"function {f} used as a statement"
      chkKinds genv locals f p.formals args
def chkSL (genv : List (String × GBind)) (locals : List (String × LBind)) (inFunc : Bool) : List Stmt → Except String Unit
  | [] => .ok ()
  | s :: ss => do chkS genv locals inFunc s; chkSL genv locals inFunc ss
end

/-- Placeholder bindings that give the formals of `p` their kinds. -/
def formalKinds : List Formal → List (String × LBind)
  | [] => []
  | .val n :: fs => (n, .valF 0) :: formalKinds fs
  | .array n :: fs => (n, .arrF (.lit [])) :: formalKinds fs
  | .proc n :: fs => (n, .valF 0) :: formalKinds fs
  | .func n :: fs => (n, .valF 0) :: formalKinds fs

/-- Every name used is declared, with the right kind and arity; local `val`s are constant. -/
def checkProc (genv : List (String × GBind)) (p : Proc) : Except String Unit := do
  let fb := formalKinds p.formals
  let fnames := fb.map (·.1)
  let lb ← bindLocals ((globalVals genv).filter fun kv => !fnames.contains kv.1) p.locals
  chkS genv (fb ++ lb) p.isFunc p.body

def checkProcs (genv : List (String × GBind)) : List Proc → Except String Unit
  | [] => .ok ()
  | p :: ps => do
    match checkProc genv p with
    | .error w => throw s!"in {p.name}: {w}"
    | .ok () => checkProcs genv ps

/-! ### The interpreter -/

mutual

/-- Value of an expression. -/
def eval : Nat → Ctx → Expr → St → Res Val
  | 0, _, _, _ => .undef "out of fuel"
  | fuel + 1, ctx, e, st0 =>
    match tick ctx st0 with
    | none => .undef "out of fuel (run length)"
    | some st =>
    match e with
    | .num v => .ok (.int v) st
    | .bool b => .ok (.int (b2w b)) st
    | .str bytes => (liftE (packString bytes) st).bind fun ws s => .ok (.arr (.lit ws)) s
    | .name n => liftE (readName ctx st n) st
    | .sub n i =>
      (asInt "subscript" (eval fuel ctx i st)).bind fun iv s =>
        liftE (do let r ← arrayOf ctx s n; let w ← arrGet s r iv; pure (Val.int w)) s
    | .un .neg a =>
      (asInt "operand of -" (eval fuel ctx a st)).bind fun w s => liftE ((neg w).map Val.int) s
    | .un .not a =>
      (asBool "operand of ~" (eval fuel ctx a st)).bind fun w s => .ok (.int (b2w (w == 0))) s
    | .bin .and l r =>
      (asBool "operand of and" (eval fuel ctx l st)).bind fun a s =>
        if a == 0 then .ok (.int 0) s
        else (asBool "operand of and" (eval fuel ctx r s)).bind fun b s' => .ok (.int b) s'
    | .bin .or l r =>
      (asBool "operand of or" (eval fuel ctx l st)).bind fun a s =>
        if a == 1 then .ok (.int 1) s
        else (asBool "operand of or" (eval fuel ctx r s)).bind fun b s' => .ok (.int b) s'
    | .bin op l r =>
      if !orderOk ctx st [l, r] then .undef "evaluation order of operands matters (impure call)"
      else
        (asInt "operand" (eval fuel ctx l st)).bind fun a s =>
          (asInt "operand" (eval fuel ctx r s)).bind fun b s' =>
            liftE ((arith op a b).map Val.int) s'
    | .syscall id args =>
      if id != 2 then .undef "value of system call 0/1 (or invalid system call) used as an operand"
      else if !orderOk ctx st args then .undef "evaluation order of actuals matters (impure call)"
      else
        (evalArgs fuel ctx args st).bind fun vs s =>
          (doSyscall 2 vs s).bind fun r s' =>
            match r with
            | some w => .ok (.int w) s'
            | none => .undef "system call has no value"
    | .call f args =>
      if !orderOk ctx st args then .undef "evaluation order of actuals matters (impure call)"
      else
        match resolveCallee ctx st f with
        | .bad why => .undef why
        | .sys id =>
          if id != 2 then .undef "value of system call 0/1 (or invalid system call) used as an operand"
          else
            (evalArgs fuel ctx args st).bind fun vs s =>
              (doSyscall 2 vs s).bind fun r s' =>
                match r with
                | some w => .ok (.int w) s'
                | none => .undef "system call has no value"
        | .user p =>
          if !p.isFunc then .undef s!"value of procedure {f} used as an operand"
          else
            (evalArgs fuel ctx args st).bind fun vs s =>
              (callUser fuel ctx p vs s).bind fun r s' =>
                match r with
                | some w => .ok (.int w) s'
                | none => .undef "function produced no value"

/-- Actuals, left to right (only reached when the order cannot matter). -/
def evalArgs : Nat → Ctx → List Expr → St → Res (List Val)
  | 0, _, _, _ => .undef "out of fuel"
  | _ + 1, _, [], st => .ok [] st
  | fuel + 1, ctx, e :: es, st =>
    (eval fuel ctx e st).bind fun v s =>
      (evalArgs fuel ctx es s).bind fun vs s' => .ok (v :: vs) s'

/-- One instance of a user procedure (`none`) or function (`some value`). -/
def callUser : Nat → Ctx → Proc → List Val → St → Res (Option Word)
  | 0, _, _, _, _ => .undef "out of fuel"
  | fuel + 1, ctx, p, vs, st =>
    if st.depth ≥ maxDepth then .undef "stack budget exceeded (call depth)"
    else
      match bindFormals p.formals vs with
      | .error w => .undef w
      | .ok fb =>
        let fnames := fb.map (·.1)
        match bindLocals ((globalVals ctx.genv).filter fun kv => !fnames.contains kv.1) p.locals with
        | .error w => .undef w
        | .ok lb =>
          let saved := st.locals
          let d := st.depth
          let st1 := { st with locals := fb ++ lb, depth := d + 1, calls := p.name :: st.calls }
          (exec fuel ctx p.body st1).bind fun fl s =>
            let s' := { s with locals := saved, depth := d }
            match fl, p.isFunc with
            | .normal, false => .ok none s'
            | .ret w, true => .ok (some w) s'
            | .normal, true => .undef s!"function {p.name} finished without return"
            | .ret _, false => .undef s!"return in procedure {p.name}"

/-- Execution of a statement. -/
def exec : Nat → Ctx → Stmt → St → Res Flow
  | 0, _, _, _ => .undef "out of fuel"
  | fuel + 1, ctx, stmt, st0 =>
    match tick ctx st0 with
    | none => .undef "out of fuel (run length)"
    | some st =>
    match stmt with
    | .skip => .ok .normal st
    | .stop => .exit 0 st
    | .ret e => (asInt "returned value" (eval fuel ctx e st)).bind fun w s => .ok (.ret w) s
    | .ite c t e =>
      (asBool "condition of if" (eval fuel ctx c st)).bind fun w s =>
        if w == 1 then exec fuel ctx t s else exec fuel ctx e s
    | .while c b =>
      match asBool "condition of while" (eval fuel ctx c st) with
      | .undef w => .undef w
      | .exit code s => .exit code s
      | .ok w s =>
        if w == 0 then .ok .normal s
        else
          match exec fuel ctx b s with
          | .undef w => .undef w
          | .exit code s' => .exit code s'
          | .ok (.ret _) _ => .undef "return inside a loop is not the final process of its function"
          | .ok .normal s' => exec fuel ctx (.while c b) s'
    | .seq ss => execSeq fuel ctx ss st
    | .assign n e =>
      (asInt "assigned value" (eval fuel ctx e st)).bind fun w s =>
        liftE ((writeName ctx s n w).map fun s' => (Flow.normal, s')) s |>.bind fun p _ => .ok p.1 p.2
    | .assignSub n i e =>
      if !orderOk ctx st [i, e] then .undef "evaluation order of subscript and value matters (impure call)"
      else
        (asInt "subscript" (eval fuel ctx i st)).bind fun iv s =>
          (asInt "assigned value" (eval fuel ctx e s)).bind fun w s' =>
            match (do let r ← arrayOf ctx s' n; arrSet s' r iv w) with
            | .ok s'' => .ok .normal s''
            | .error why => .undef why
    | .syscall id args =>
      if !orderOk ctx st args then .undef "evaluation order of actuals matters (impure call)"
      else
        (evalArgs fuel ctx args st).bind fun vs s =>
          (doSyscall (BitVec.ofNat 32 id) vs s).bind fun _ s' => .ok .normal s'
    | .call f args =>
      if !orderOk ctx st args then .undef "evaluation order of actuals matters (impure call)"
      else
        match resolveCallee ctx st f with
        | .bad why => .undef why
        | .sys id =>
          (evalArgs fuel ctx args st).bind fun vs s =>
            (doSyscall id vs s).bind fun _ s' => .ok .normal s'
        | .user p =>
          if p.isFunc then .undef s!"function {f} used as a statement"
          else
            (evalArgs fuel ctx args st).bind fun vs s =>
              (callUser fuel ctx p vs s).bind fun _ s' => .ok .normal s'

/-- `{ s1; ...; sn }`. A `return` must be the last process executed. -/
def execSeq : Nat → Ctx → List Stmt → St → Res Flow
  | 0, _, _, _ => .undef "out of fuel"
  | _ + 1, _, [], st => .ok .normal st
  | fuel + 1, ctx, s :: ss, st =>
    match exec fuel ctx s st with
    | .undef w => .undef w
    | .exit code s' => .exit code s'
    | .ok (.ret w) s' =>
      if ss.isEmpty then .ok (.ret w) s'
      else .undef "return is not the final process of its function"
    | .ok .normal s' => execSeq fuel ctx ss s'

end

/-! ### Programs -/

def hasDup : List String → Bool
  | [] => false
  | n :: ns => ns.contains n || hasDup ns

/-- Global declarations in order: environment, global variable store, array store. -/
def bindGlobals : List Decl → List (String × GBind) → List (String × Option Word) →
    Array (Array (Option Word)) → Nat →
    Except String (List (String × GBind) × List (String × Option Word) × Array (Array (Option Word)))
  | [], env, gv, arrs, _ => .ok (env.reverse, gv.reverse, arrs)
  | .val n e :: ds, env, gv, arrs, tot => do
    let w ← constEval (globalVals env) e
    bindGlobals ds ((n, .val w) :: env) gv arrs tot
  | .var n :: ds, env, gv, arrs, tot => bindGlobals ds ((n, .var) :: env) ((n, none) :: gv) arrs tot
  | .array n sz :: ds, env, gv, arrs, tot => do
    let w ← constEval (globalVals env) sz
    if w.toInt < 0 then throw s!"array {n} has negative length"
    let len := w.toNat
    if tot + len > maxArrayWords then throw "array budget exceeded"
    bindGlobals ds ((n, .array arrs.size) :: env) gv (arrs.push (Array.replicate len none)) (tot + len)

/-- The supported syntactic subset. -/
def checkProgram (P : Program) : Except String Unit := do
  if hasDup (P.globals.map Decl.name ++ P.procs.map (·.name)) then throw "a global name is declared twice"
  for p in P.procs do
    if hasDup p.localNames then throw s!"a name is declared twice in {p.name}"
    for f in p.formals do
      match f with
      | .proc n => throw s!"proc formal {n} is not supported"
      | .func n => throw s!"func formal {n} is not supported"
      | _ => pure ()
  match P.procs.find? (·.name == "main") with
  | some m =>
    if m.isFunc then throw "main must be a procedure"
    if !m.formals.isEmpty then throw "main must have no formals"
  | none => throw "no procedure main"

structure Input where
  stdin : List Byte
  files : Fin 8 → List Byte := fun _ => []

/-- Observable behaviour of a terminated run. -/
structure Behaviour where
  events : List Ev          -- every output byte and every input byte, per stream, oldest first
  stdinConsumed : Nat
  exit : Word
  calls : List String       -- procedures and functions entered, oldest first
  returned : Bool           -- true: `main` returned; false: terminated by `0(v)` or `stop`
  deriving DecidableEq, Repr

inductive Result where
  | defined (b : Behaviour)
  | undefined (reason : String)
  deriving DecidableEq, Repr

def mkBehaviour (inp : Input) (code : Word) (s : St) (returned : Bool) : Behaviour :=
  { events := s.io.log.reverse, stdinConsumed := inp.stdin.length - s.io.stdin.length,
    exit := code, calls := s.calls.reverse, returned }

/-- The reference semantics: behaviour of program `P` on input `inp`, or `undefined`. -/
def run (P : Program) (inp : Input) (fuel : Nat) : Result :=
  match checkProgram P with
  | .error w => .undefined ("unsupported: " ++ w)
  | .ok () =>
    match bindGlobals P.globals [] [] #[] 0 with
    | .error w => .undefined w
    | .ok (env, gv, arrs) =>
      let genv := env ++ P.procs.map fun p => (p.name, GBind.proc p)
      match checkProcs genv P.procs with
      | .error w => .undefined ("unsupported: " ++ w)
      | .ok () =>
      let ctx : Ctx := { genv, impure := impureProcs P, limit := fuel }
      let st : St := { gvars := gv, arrays := arrs, locals := [], io := IOSt.init inp.stdin inp.files,
                       calls := [], steps := 0, depth := 0 }
      match P.procs.find? (·.name == "main") with
      | none => .undefined "unsupported: no procedure main"
      | some m =>
        match callUser fuel ctx m [] st with
        | .undef w => .undefined w
        | .exit code s => .defined (mkBehaviour inp code s false)
        | .ok _ s => .defined (mkBehaviour inp 0 s true)

end Hex.X
