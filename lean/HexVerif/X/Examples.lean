import HexVerif.X.Sem
/-!
  Replays of small X programs through the reference semantics `X.run`; every `example` is checked
  by the kernel (`decide +kernel`: evaluation by kernel reduction, no axioms).  They pin the decisions documented at the top of `X/Sem.lean`.
-/
namespace Hex.X.Examples
open Hex Hex.X Hex.Isa

private def n (k : Nat) : Expr := .num (BitVec.ofNat 32 k)
private def mainOf (body : Stmt) (locals : List Decl := []) : Proc :=
  { isFunc := false, name := "main", formals := [], locals, body }
private def noInput : Input := { stdin := [] }

-- `val put = 1; proc main() is { put('h', 0); 0(3 + 4) }`
def hello : Program :=
  { globals := [.val "put" (n 1)],
    procs := [mainOf (.seq [.call "put" [n 104, n 0], .syscall 0 [.bin .plus (n 3) (n 4)]])] }

example : run hello noInput 100 =
    .defined { events := [.out none 104], stdinConsumed := 0, exit := 7, calls := ["main"], returned := false } := by decide +kernel

-- Returning from `main` and `stop` both exit with 0.
example : run { globals := [], procs := [mainOf .skip] } noInput 10 =
    .defined { events := [], stdinConsumed := 0, exit := 0, calls := ["main"], returned := true } := by decide +kernel
example : run { globals := [], procs := [mainOf (.seq [.stop, .syscall 0 [n 5]])] } noInput 10 =
    .defined { events := [], stdinConsumed := 0, exit := 0, calls := ["main"], returned := false } := by decide +kernel

/-- `func fac(val n) is if n = 0 then return 1 else return mul(n, fac(n - 1))` with `mul` by repeated
    addition; `proc main() is 0(fac(4))` exits with 24. -/
def facProg : Program :=
  { globals := [],
    procs := [
      { isFunc := true, name := "mul", formals := [.val "a", .val "b"], locals := [.var "r", .var "i"],
        body := .seq [.assign "r" (n 0), .assign "i" (n 0),
                      .while (.bin .ls (.name "i") (.name "b"))
                        (.seq [.assign "r" (.bin .plus (.name "r") (.name "a")),
                               .assign "i" (.bin .plus (.name "i") (n 1))]),
                      .ret (.name "r")] },
      { isFunc := true, name := "fac", formals := [.val "n"], locals := [],
        body := .ite (.bin .eq (.name "n") (n 0)) (.ret (n 1))
                  (.ret (.call "mul" [.name "n", .call "fac" [.bin .minus (.name "n") (n 1)]])) },
      mainOf (.syscall 0 [.call "fac" [n 4]])] }

example : (match run facProg noInput 2000 with | .defined b => b.exit | _ => 0) = 24 := by decide +kernel

-- `2(0)` reads a byte, 255 at end of input; `1(b, s)` writes `b & 0xFF`.
def echo2 : Program :=
  { globals := [],
    procs := [mainOf (.seq [.syscall 1 [.syscall 2 [n 0], n 0], .syscall 1 [.bin .plus (.syscall 2 [n 0]) (n 2), n 0]])] }

example : run echo2 { stdin := [65] } 100 =
    .defined { events := [.inp none 65, .out none 65, .inp none 255, .out none 1], stdinConsumed := 1,
               exit := 0, calls := ["main"], returned := true } := by decide +kernel

/-- Global arrays, array formals (by reference) and packed strings:
    `array a[2]; proc set(array v, val i) is v[i] := i + 7; proc main() is { set(a, 1); 0(a[1] + len("abc")) }`
    where `func len(array s) is return s[0]` yields the packed word `3 | 'a'<<8 | 'b'<<16 | 'c'<<24`. -/
def arrProg (e : Expr) : Program :=
  { globals := [.array "a" (n 2)],
    procs := [
      { isFunc := false, name := "set", formals := [.array "v", .val "i"], locals := [],
        body := .assignSub "v" (.name "i") (.bin .plus (.name "i") (n 7)) },
      { isFunc := true, name := "first", formals := [.array "s"], locals := [], body := .ret (.sub "s" (n 0)) },
      mainOf (.seq [.call "set" [.name "a", n 1], .syscall 0 [e]])] }

example : (match run (arrProg (.sub "a" (n 1))) noInput 100 with | .defined b => b.exit | _ => 0) = 8 := by decide +kernel
example : (match run (arrProg (.call "first" [.str [97, 98, 99]])) noInput 100 with | .defined b => b.exit | _ => 0)
    = 0x63626103#32 := by decide +kernel
-- The empty string is one word holding the length 0.
example : (match run (arrProg (.call "first" [.str []])) noInput 100 with | .defined b => b.exit | _ => 1) = 0 := by decide +kernel

/-! Cases the C01 quantifier excludes are `undefined`, never a demand on the implementation. -/

example : run (arrProg (.sub "a" (n 0))) noInput 100 = .undefined "read of unassigned array element" := by decide +kernel
example : run (arrProg (.sub "a" (n 2))) noInput 100 = .undefined "subscript out of range" := by decide +kernel
example : run (arrProg (.bin .plus (n 2147483647) (n 1))) noInput 100 = .undefined "overflow in +" := by decide +kernel
example : run (arrProg (.bin .ls (n 2147483647) (.un .neg (n 1)))) noInput 100 =
    .undefined "comparison difference overflows" := by decide +kernel
example : run (arrProg (.bin .and (n 2) (n 1))) noInput 100 = .undefined "operand of and is not true/false" := by decide +kernel
example : run { globals := [], procs := [mainOf (.while (.bool true) .skip)] } noInput 50 =
    .undefined "out of fuel (run length)" := by decide +kernel

-- An impure call next to a non-constant sibling: the order X leaves open would matter.
def orderProg (e : Expr) : Program :=
  { globals := [.var "g"],
    procs := [
      { isFunc := true, name := "bump", formals := [], locals := [],
        body := .seq [.assign "g" (.bin .plus (.name "g") (n 1)), .ret (.name "g")] },
      mainOf (.seq [.assign "g" (n 0), .syscall 0 [e]])] }

example : run (orderProg (.bin .plus (.call "bump" []) (.name "g"))) noInput 100 =
    .undefined "evaluation order of operands matters (impure call)" := by decide +kernel
example : (match run (orderProg (.bin .plus (.call "bump" []) (n 5))) noInput 100 with | .defined b => b.exit | _ => 0) = 6 := by decide +kernel

-- `and` / `or` are evaluated left to right with short circuit, so impure operands are fine.
example : (match run (orderProg (.bin .and (.bin .eq (.call "bump" []) (n 1)) (.bin .eq (.call "bump" []) (n 2)))) noInput 100
    with | .defined b => b.exit | _ => 9) = 1 := by decide +kernel

end Hex.X.Examples
