import HexVerif.Lemmas.XcmpFuel
import HexVerif.Lemmas.XcmpNoLocalArr
import HexVerif.Lemmas.XcmpNamed
import HexVerif.Lemmas.XcmpV1
import HexVerif.Xcmp.Compile
/-!
  Property C09: xcmp accepts or cleanly rejects every input - the stages modelled so far.

  Model: `Xcmp/Lexer.lean` (xcmp::Lexer from the source BYTES) and `Xcmp/Parser.lean` (xcmp::Parser to
  the AST of `X/Syntax.lean`), tied to the real compiler on every run of `./check C09` (token streams,
  class and location of every lexical and syntactic diagnostic, trees of accepted programs).

  Proved here, for every byte string:
  * `C09_lexer`: the lexer is total and terminates by construction (structural recursion on the
    bytes); its result is never empty, ends in the END_OF_FILE of the real end of input or in the
    first lexical diagnostic, and has at most two items per source byte plus two.
  * `C09_no_fault`: the front end never reaches the one partial operation it contains by name (an
    assignment statement whose target is neither a variable nor a subscript, which the C++ only
    guards by a compiled-out `assert(0)` in StmtCodeGen) - whatever the fuel.
  * `C09_no_fuel`: the recursion bound of the parser MODEL (`fuelFor src` = 8 units per lexical item
    + 8) always suffices - every call cycle of the grammar consumes a token, and consuming buys 8 units.
  * `C09_partial`: hence the front end either delivers a program or a diagnostic (and then nothing
    else: the diagnostic arm carries no tree) - for every byte string, with no third outcome.

  * `C09_no_local_array`: no program the parser delivers declares a local array - the one tree shape
    for which the compile-stage model has no C++ behaviour to follow (`CDiag.unsupported`).
  * `C09_pipeline_partial`: the WHOLE compiler model from source bytes (`runSrc` = front end, then
    `Xcmp.compileFile`: symbols, constant propagation, rewriting, code generation, lowering, peephole,
    in-process assembly, file image) ends in an image, a located front-end diagnostic or a semantic
    diagnostic of a named exception class - or in the explicitly named residual `Residual P`: the
    directive list handed to the assembler fails the decidable check `dirsOkB` (an immediate outside
    32 bits, or 2^26 directives).  That no compile stage ends in an outcome without a C++ counterpart
    is proved by a walk over every stage (`Lemmas/XcmpNamed.lean`: `stages_named` - the only
    un-named error of the model is raised for a local array, which no parsed program has).
    The residual is evaluated on every program of the C01/C08/C09 correspondence runs (field `R=` of
    the compiler-model driver) and has never been met; that it is empty is not proved (it needs a
    bound of frame sizes by the source length).  Under `dirsOkB` label resolution terminates
    (`Asm.assemble_terminates`, the C05/C10 theorem).

  NOT proved (so the level claimed is partial): the partial operations of the C++ after the
  parser - symbol table, constant propagation, code generation, lowering, peephole, assembly - where
  the remaining partial operations of the C++ live (`optional::value`, null after `dynamic_cast`,
  label-map lookups, shifts, signed arithmetic).  Those stages are exercised by the sanitizer-
  instrumented real compiler on the generated inputs of the check.

  Full statement (DESIGN.md section 6 C09), of which the above is the front-end part:
    theorem C09 : ∀ src, ∃ r, Xcmp.run src = r ∧ (∀ k, r ≠ .fault k) ∧ (r is a diagnostic → no image)
-/
namespace Hex.Xcmp

/-- The lexer: total, well ended, linear in the source. -/
theorem C09_lexer (src : List Byte) :
    lexAll src ≠ [] ∧ WellEnded (lexAll src) ∧ (lexAll src).length ≤ 2 * src.length + 2 :=
  ⟨lexAll_ne_nil src, lexAll_wellEnded src, lexGo_length src .start {}⟩

/-- No partial operation of the front end is reachable, for any source bytes and any fuel. -/
theorem C09_no_fault (src : List Byte) (fuel : Nat) (what : String) :
    parseProgram src fuel ≠ .error (.fault what) :=
  parseProgram_no_fault src fuel what

/-- The recursion bound of the parser model always suffices. -/
theorem C09_no_fuel (src : List Byte) : parse src ≠ .error .fuel :=
  parseProgram_no_fuel src (fuelFor src) (Nat.le_refl _)

/-- The front end accepts or cleanly rejects every byte string: a program or a diagnostic, nothing else. -/
theorem C09_partial (src : List Byte) :
    (∃ P, parse src = .ok P) ∨ (∃ d, parse src = .error (.diag d)) := by
  cases h : parse src with
  | ok P => exact Or.inl ⟨P, rfl⟩
  | error e =>
    cases e with
    | diag d => exact Or.inr ⟨d, rfl⟩
    | fuel => exact absurd h (C09_no_fuel src)
    | fault w => exact absurd h (C09_no_fault src _ w)

/-! Non-vacuity: an accepted program, a syntactic and a lexical diagnostic with their locations, the
    0xFF byte acting as end of file, and the second stray token after the program (the first is skipped). -/

/-- The outcome of the front end in a comparable form: the undecorated `--tree` text, or the error. -/
def outcome (src : String) : PErr ⊕ List Byte :=
  match parse (bytesOf src) with
  | .ok P => .inr (printProgram P)
  | .error e => .inl e

example : outcome "proc main() is 0(1+2)" =
    .inr (bytesOf "program\n  proc main\n    syscallstmt 0\n      syscall 0\n        binaryop +\n          number 1\n          number 2\n") := by
  decide +kernel
example : outcome "proc main() is x := " = .inl (.diag ⟨.parserToken, ⟨0, 22⟩⟩) := by decide +kernel
example : outcome "proc main() is 0('ab')" = .inl (.diag ⟨.token, ⟨0, 20⟩⟩) := by decide +kernel
example : outcome "proc main() is skip x y" = .inl (.diag ⟨.unexpectedToken, ⟨0, 24⟩⟩) := by decide +kernel
example : (lexAll [112, 255, 113]).length = 4 := by decide +kernel

/-! ### The whole compiler model from source bytes -/

/-- Outcome of the compiler model on a source text. -/
inductive Outcome where
  | image (bytes : List Byte)          -- the file xcmp writes
  | frontDiag (d : Diag)               -- lexical / syntactic diagnostic with its location
  | compileDiag (d : CDiag)            -- semantic diagnostic: a named exception class
  | anomaly (what : String)            -- an outcome the C++ has no counterpart for

/-- The side condition under which the assembler model follows hexasm on xcmp's directive list. -/
def dirsOkB (ds : List Asm.Dir) : Bool := C01s.parsedOkB ds && decide (ds.length < 2 ^ 26)

def runSrc (src : List Byte) : Outcome :=
  match parse src with
  | .error (.diag d) => .frontDiag d
  | .error .fuel => .anomaly "parser fuel"
  | .error (.fault w) => .anomaly w
  | .ok P =>
    match stages P with
    | .error e => if CDiag.named e then .compileDiag e else .anomaly "compile stage"
    | .ok st =>
      if dirsOkB st.optimised then
        match assembleDirs st.optimised with
        | .ok img => .image (Asm.fileBytes img)
        | .error e => if CDiag.named e then .compileDiag e else .anomaly "assembler"
      else .anomaly "directive list outside the assembler model"

/-- What is not excluded by proof: the directive list handed to the assembler fails `dirsOkB`. -/
def Residual (P : X.Program) : Prop := ∃ st, stages P = .ok st ∧ dirsOkB st.optimised = false

/-- No program the parser delivers declares a local array. -/
theorem C09_no_local_array (src : List Byte) (P : X.Program) (h : parse src = .ok P) : NoLocalArr P :=
  parse_noLocalArr src _ P h

theorem withLoc_map (ds : List Asm.Dir) : (withLoc ds).map (·.1) = ds := by
  unfold withLoc
  induction ds with
  | nil => rfl
  | cons d t ih => rw [List.map_cons, List.map_cons, ih]

/-- Under `dirsOkB` the in-process assembly never runs out of iterations. -/
theorem assembleDirs_no_fuel (ds : List Asm.Dir) (h : dirsOkB ds = true) : assembleDirs ds ≠ .error .asmFuel := by
  unfold dirsOkB at h
  rw [Bool.and_eq_true] at h
  have hp : Asm.ParsedOk ((withLoc ds).map (·.1)) := by rw [withLoc_map]; exact C01s.parsedOkB_sound ds h.1
  have hn : (withLoc ds).length < 2 ^ 26 := by unfold withLoc; rw [List.length_map]; exact of_decide_eq_true h.2
  have ht := Asm.assemble_terminates (withLoc ds) hp hn
  unfold assembleDirs
  intro hc
  split at hc
  · cases hc
  · rename_i hnone; exact ht hnone
  · cases hc

/-- **The whole compiler model, from source bytes**: image, located diagnostic, named semantic
    diagnostic - or the residual of the header. -/
theorem C09_pipeline_partial (src : List Byte) :
    (∃ b, runSrc src = .image b) ∨ (∃ d, runSrc src = .frontDiag d) ∨
    (∃ d, runSrc src = .compileDiag d ∧ CDiag.named d = true) ∨
    (∃ P, parse src = .ok P ∧ NoLocalArr P ∧ Residual P) := by
  cases hp : parse src with
  | error e =>
    cases e with
    | diag d => exact Or.inr (Or.inl ⟨d, by simp only [runSrc, hp]⟩)
    | fuel => exact absurd hp (C09_no_fuel src)
    | fault w => exact absurd hp (C09_no_fault src _ w)
  | ok P =>
    have hna := C09_no_local_array src P hp
    cases hs : stages P with
    | error e =>
      have hn : CDiag.named e = true := stages_named P hna e hs
      exact Or.inr (Or.inr (Or.inl ⟨e, by simp only [runSrc, hp, hs, hn, if_true], hn⟩))
    | ok st =>
      by_cases hd : dirsOkB st.optimised = true
      · cases ha : assembleDirs st.optimised with
        | ok img => exact Or.inl ⟨Asm.fileBytes img, by simp only [runSrc, hp, hs, hd, ha, if_true]⟩
        | error e =>
          by_cases hn : CDiag.named e = true
          · exact Or.inr (Or.inr (Or.inl ⟨e, by simp only [runSrc, hp, hs, hd, ha, hn, if_true], hn⟩))
          · exfalso
            cases e with
            | asmFuel => exact assembleDirs_no_fuel _ hd ha
            | unsupported w => unfold assembleDirs at ha; split at ha <;> cases ha
            | unknownSymbol n => exact hn rfl
            | redeclaredSymbol n => exact hn rfl
            | nonConstArrayLength n => exact hn rfl
            | nonConstVal n => exact hn rfl
            | invalidSyscall n => exact hn rfl
            | asm d => exact hn rfl
      · exact Or.inr (Or.inr (Or.inr ⟨P, rfl, hna, ⟨st, hs, by simpa using hd⟩⟩))

/-- In the other direction the four outcomes are exclusive and the model says which one: an
    `anomaly` is reported only inside the residual (or never, for the front end). -/
theorem C09_anomaly_is_residual (src : List Byte) (w : String) (h : runSrc src = .anomaly w) :
    ∃ P, parse src = .ok P ∧ Residual P := by
  rcases C09_pipeline_partial src with ⟨b, hb⟩ | ⟨d, hd⟩ | ⟨d, hd, _⟩ | ⟨P, hP, _, hR⟩
  · rw [hb] at h; cases h
  · rw [hd] at h; cases h
  · rw [hd] at h; cases h
  · exact ⟨P, hP, hR⟩

/-! Non-vacuity of the pipeline statement: the three proper outcomes occur. -/
def outcomeTag (src : String) : Nat :=
  match runSrc (bytesOf src) with
  | .image _ => 0
  | .frontDiag _ => 1
  | .compileDiag (.unknownSymbol _) => 2
  | .compileDiag (.nonConstArrayLength _) => 3
  | .compileDiag _ => 4
  | .anomaly _ => 5

example : outcomeTag "proc main() is 0(1+2)" = 0 := by decide +kernel
example : outcomeTag "proc main() is x := " = 1 := by decide +kernel
example : outcomeTag "proc main() is x := 1" = 2 := by decide +kernel
example : outcomeTag "var n; array a[n]; proc main() is skip" = 3 := by decide +kernel

end Hex.Xcmp
