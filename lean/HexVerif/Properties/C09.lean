import HexVerif.Lemmas.XcmpFuel
/-!
  Property C09: xcmp accepts or cleanly rejects every input - the stages modelled so far.

  Model: `Xcmp/Lexer.lean` (xcmp::Lexer from the source BYTES) and `Xcmp/Parser.lean` (xcmp::Parser to
  the AST of `X/Syntax.lean`), tied to the real compiler on every run of `./check C09` (token streams,
  class and location of every lexical and syntactic diagnostic, trees of accepted programs).

  Proved here, for every byte string:
  * `C09_lexer`: the lexer is total and terminates by construction (structural recursion on the
    bytes); its result is never empty, ends in the END_OF_FILE of the real end of input or in the
    first lexical diagnostic, and has at most two items per source byte plus two.
  * `C09_no_fault`: the front end never reaches the one partial operation it contains by name (an
    assignment statement whose target is neither a variable nor a subscript, which the C++ only
    guards by a compiled-out `assert(0)` in StmtCodeGen) - whatever the fuel.
  * `C09_no_fuel`: the recursion bound of the parser MODEL (`fuelFor src` = 8 units per lexical item
    + 8) always suffices - every call cycle of the grammar consumes a token, and consuming buys 8 units.
  * `C09_partial`: hence the front end either delivers a program or a diagnostic (and then nothing
    else: the diagnostic arm carries no tree) - for every byte string, with no third outcome.

  NOT proved (so the level claimed is partial): everything after the
  parser - symbol table, constant propagation, code generation, lowering, peephole, assembly - where
  the remaining partial operations of the C++ live (`optional::value`, null after `dynamic_cast`,
  label-map lookups, shifts, signed arithmetic).  Those stages are exercised by the sanitizer-
  instrumented real compiler on the generated inputs of the check.

  Full statement (DESIGN.md section 6 C09), of which the above is the front-end part:
    theorem C09 : ∀ src, ∃ r, Xcmp.run src = r ∧ (∀ k, r ≠ .fault k) ∧ (r is a diagnostic → no image)
-/
namespace Hex.Xcmp

/-- The lexer: total, well ended, linear in the source. -/
theorem C09_lexer (src : List Byte) :
    lexAll src ≠ [] ∧ WellEnded (lexAll src) ∧ (lexAll src).length ≤ 2 * src.length + 2 :=
  ⟨lexAll_ne_nil src, lexAll_wellEnded src, lexGo_length src .start {}⟩

/-- No partial operation of the front end is reachable, for any source bytes and any fuel. -/
theorem C09_no_fault (src : List Byte) (fuel : Nat) (what : String) :
    parseProgram src fuel ≠ .error (.fault what) :=
  parseProgram_no_fault src fuel what

/-- The recursion bound of the parser model always suffices. -/
theorem C09_no_fuel (src : List Byte) : parse src ≠ .error .fuel :=
  parseProgram_no_fuel src (fuelFor src) (Nat.le_refl _)

/-- The front end accepts or cleanly rejects every byte string: a program or a diagnostic, nothing else. -/
theorem C09_partial (src : List Byte) :
    (∃ P, parse src = .ok P) ∨ (∃ d, parse src = .error (.diag d)) := by
  cases h : parse src with
  | ok P => exact Or.inl ⟨P, rfl⟩
  | error e =>
    cases e with
    | diag d => exact Or.inr ⟨d, rfl⟩
    | fuel => exact absurd h (C09_no_fuel src)
    | fault w => exact absurd h (C09_no_fault src _ w)

/-! Non-vacuity: an accepted program, a syntactic and a lexical diagnostic with their locations, the
    0xFF byte acting as end of file, and the second stray token after the program (the first is skipped). -/

/-- The outcome of the front end in a comparable form: the undecorated `--tree` text, or the error. -/
def outcome (src : String) : PErr ⊕ List Byte :=
  match parse (bytesOf src) with
  | .ok P => .inr (printProgram P)
  | .error e => .inl e

example : outcome "proc main() is 0(1+2)" =
    .inr (bytesOf "program\n  proc main\n    syscallstmt 0\n      syscall 0\n        binaryop +\n          number 1\n          number 2\n") := by
  decide +kernel
example : outcome "proc main() is x := " = .inl (.diag ⟨.parserToken, ⟨0, 22⟩⟩) := by decide +kernel
example : outcome "proc main() is 0('ab')" = .inl (.diag ⟨.token, ⟨0, 20⟩⟩) := by decide +kernel
example : outcome "proc main() is skip x y" = .inl (.diag ⟨.unexpectedToken, ⟨0, 24⟩⟩) := by decide +kernel
example : (lexAll [112, 255, 113]).length = 4 := by decide +kernel

end Hex.Xcmp
