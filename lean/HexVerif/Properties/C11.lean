import HexVerif.Lemmas.XcmpJunk
import HexVerif.Lemmas.AsmJunk
import HexVerif.Lemmas.XcmpSymJunk
/-!
  Property C11: compilation is a deterministic function of the source - the part shown by proof.

  The C++ `xcmp::Lexer` constructor leaves `value`, `lastChar` and `lastToken` uninitialised.
  `lastChar` is written by `loadBuffer`/`openFile` (`readChar`) and `lastToken` by `getNextToken`
  before either is read; the model therefore has no place for them.  `value` is different: it is a
  member that every token "carries" in the model (the parser reads `lexer.getNumber()` after the
  fact), so the model takes its initial content as an explicit junk parameter (`lexAllJ`,
  `parseProgramJ`, `tokensOutputJ`) and the theorems show it never reaches a result:

  * `C11_tokens_junk`  - the text `xcmp --tokens` prints does not depend on the junk;
  * `C11_front_junk`   - neither does the outcome of lexing + parsing (tree or diagnostic), for any fuel;
  * `C11_fresh`        - the model carries no state from one compilation to the next: the k-th result
                         of a batch is the result of compiling that source alone (each C++ compilation
                         constructs its own `Driver`, `Lexer`, `Parser`, symbol table and counters).

  hexasm (`Hex.Asm` below): `Asm.run`, the model of the whole assembler from the source bytes, with
  the same treatment of its lexer's `value`: `C11_asm_junk`.

  * `C11_compile_junk` - the stages after the parser: `Symbol::stackOffset` is not initialised by the C++
                         constructor; the model's `createSymbolsJ j` gives every new symbol the junk `j`, and
                         the whole compilation (`compileJ`: symbols, ConstProp, OptimiseExpr, code generation,
                         lowering, peephole, assembly - binary or diagnostic) is independent of it, for every
                         program whose procedure names are distinct (others are rejected before the field is
                         read); `C11_stages_junk` is the same for the intermediate listings.

  What is NOT covered by proof: `ValDecl::exprValue` (repaired by the D13 `fix:`), `CodeBuffer::currentFrame`,
  ordered containers and label/constant/string counters (deterministic by construction in the model, which is
  compared with the real xcmp by runner/c01model.py) and hexasm's `InstrLabel::labelValue` (set by the model's
  `resolve` before use).  Those are covered by the perturbation matrix of `./check C11` on the real code.
-/
namespace Hex.Properties.C11
open Hex Hex.Xcmp

theorem C11_tokens_junk (j1 j2 : Word) (src : List Byte) : tokensOutputJ j1 src = tokensOutputJ j2 src :=
  tokensOutputJ_indep j1 j2 src

theorem C11_front_junk (j1 j2 : Word) (src : List Byte) (fuel : Nat) :
    parseProgramJ j1 src fuel = parseProgramJ j2 src fuel :=
  parseProgramJ_indep j1 j2 src fuel

/-- The compiler after the parser: the uninitialised `Symbol::stackOffset` never reaches the output. -/
theorem C11_compile_junk (j1 j2 : Int) (P : X.Program) (h : (P.procs.map (·.name)).Nodup) :
    Xcmp.compileJ j1 P = Xcmp.compileJ j2 P := Xcmp.compileJ_indep j1 j2 P h

theorem C11_compile_is_compileJ (j : Int) (P : X.Program) (h : (P.procs.map (·.name)).Nodup) :
    Xcmp.compileJ j P = Xcmp.compile P := Xcmp.compileJ_eq_compile j P h

theorem C11_stages_junk (j1 j2 : Int) (P : X.Program) (h : (P.procs.map (·.name)).Nodup) :
    ERel (fun s1 s2 => ORel s1.cg s2.cg ∧ s1.lowered = s2.lowered ∧ s1.optimised = s2.optimised)
      (stagesJ j1 P) (stagesJ j2 P) := Xcmp.stagesJ_indep j1 j2 P h

/-- A batch of compilations in one process, as the model sees it. -/
def compileAll (srcs : List (List Byte)) : List (Except PErr X.Program) := srcs.map parse

theorem C11_fresh (before after : List (List Byte)) (src : List Byte) :
    (compileAll (before ++ src :: after))[before.length]? = some (parse src) := by
  simp [compileAll]

/-! Non-vacuity: the junk really is visible in the token records (so the theorems say something),
    e.g. the `proc` token of `proc main() is 0(7)` carries it - and the results do not change. -/

example : (match lexAllJ 0xDEAD#32 (bytesOf "proc main() is 0(7)") with
           | .tok t :: _ => t.value | _ => 0) = 0xDEAD#32 := by decide +kernel

example : tokensOutputJ 0xDEAD#32 (bytesOf "proc main() is 0(7)") = tokensOutputJ 0#32 (bytesOf "proc main() is 0(7)") :=
  C11_tokens_junk _ _ _


/-- hexasm: the outcome of the whole assembler model (image and directive list, diagnostic, or the
    model's iteration bound) does not depend on the junk in the uninitialised `Lexer::value`: the token
    sequences differ at most in the `value` field of tokens that are not NUMBER, and the parser reads
    that field only in `parseInteger`, under `tok = NUMBER`. -/
theorem C11_asm_junk (j1 j2 : Nat) (src : List Byte) : Asm.runJ j1 src = Asm.runJ j2 src := Asm.runJ_indep j1 j2 src

theorem C11_asm_run_is_runJ (src : List Byte) : Asm.run src = Asm.runJ 0 src := Asm.run_eq_runJ src

end Hex.Properties.C11
