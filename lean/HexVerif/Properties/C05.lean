import HexVerif.Lemmas.AsmEncode
namespace Hex.Properties.C05
-- theorems follow
end Hex.Properties.C05
