import HexVerif.Lemmas.AsmLayout
/-
  C05 — every label reference assembles to the address of its label.
  Model: Asm/CodeGen.lean (`resolve`, `emitGo`, `assemble`: hexasm.hpp `resolveLabels`,
  `emitProgramBin`, `CodeGen`).  The property itself is the decidable predicate
  `Asm.checkImage` (Asm/Check.lean): the image, decoded with the ISA's prefix rules in source
  order, contains every directive without overlap, DATA words aligned after zero padding,
  every relative reference with `next + operand = label address`, every absolute reference with
  an aligned label and `operand = label address / 4`, and only zero padding (< 4 bytes) after
  the last directive, the total a multiple of four.  The same predicate judges the bytes the
  REAL assembler produces (`./check C05`).
  Hypothesis `p.length < 2^26`: the C++ keeps offsets in `int`; the model's unbounded numbers
  agree with it below 2^31 bytes.
-/
namespace Hex.Properties.C05
open Hex Hex.Asm

/-- **C05.** Every accepted program is assembled to an image that satisfies `checkImage`. -/
theorem C05 (src : List Byte) (img : Image) (p : List (Dir × Loc))
    (hrun : Asm.run src = .ok img p) (hn : p.length < 2 ^ 26) :
    checkImage (p.map (·.1)) img.bytes = true := by
  unfold Asm.run at hrun
  cases hparse : parseProgram (tokenize src) with
  | error e => rw [hparse] at hrun; cases hrun
  | ok p' =>
    rw [hparse] at hrun
    simp only at hrun
    cases ha : assemble p' with
    | error e => rw [ha] at hrun; cases hrun
    | ok o =>
      cases o with
      | none => rw [ha] at hrun; cases hrun
      | some img' =>
        rw [ha] at hrun
        simp only [Outcome.ok.injEq] at hrun
        obtain ⟨rfl, rfl⟩ := hrun
        exact assemble_checkImage p' img' (parse_ok _ _ hparse) hn ha

/-- **C05, termination.** Label resolution never exhausts its iteration bound: stored lengths
    only grow and never exceed 8, so `7 * n + 1` iterations always reach the fixed point. -/
theorem C05_terminates (src : List Byte) (p : List (Dir × Loc))
    (hparse : parseProgram (tokenize src) = .ok p) (hn : p.length < 2 ^ 26) :
    assemble p ≠ .ok none :=
  assemble_terminates p (parse_ok _ _ hparse) hn

/-- **C05, header.** The length word of the file equals the size of the image in words, and the
    image is a whole number of words. -/
theorem C05_header (src : List Byte) (img : Image) (p : List (Dir × Loc))
    (hparse : parseProgram (tokenize src) = .ok p) (hn : p.length < 2 ^ 26)
    (ha : assemble p = .ok (some img)) :
    fileBytes img = le32bytes (img.bytes.length / 4) ++ img.bytes ++ debugBytes img.debug ∧
    img.bytes.length % 4 = 0 := by
  obtain ⟨h1, h2⟩ := assemble_size p img (parse_ok _ _ hparse) hn ha
  exact ⟨by unfold fileBytes; rw [h1], h2⟩

/-- **C05, unaligned absolute references are rejected**, not truncated. -/
theorem C05_rejects_unaligned (opc : Nat) (name : String) (loc : Loc) (off len l : Nat)
    (labels : List (String × Nat)) (hl : lookupLabel name labels = some l) (h4 : l % 4 ≠ 0) :
    operandOf (.ref opc name false) loc off len labels = .error (.unalignedLabel loc name) := by
  simp [operandOf, hl, h4]

/-- What `checkImage` says about one relative reference, spelled out. -/
theorem C05_relative_meaning (start size l : Nat) (operand : Word)
    (h : BitVec.ofNat 32 (start + size) + operand = BitVec.ofNat 32 l) :
    (start + size + operand.toNat) % 2 ^ 32 = l % 2 ^ 32 := by
  have := congrArg BitVec.toNat h
  simpa [BitVec.toNat_add, BitVec.toNat_ofNat] using this

/-- Non-vacuity: a two-directive program with a forward reference is accepted and its image is
    `BR L (0); L` = the single byte 0x90 padded to a word. -/
example : (walk [.ref 9 "L" true, .label .plain "L"] [0x90, 0, 0, 0] 0).isSome = true := by decide

end Hex.Properties.C05
