import HexVerif.Lemmas.TbIsa
/-
  C13 — RTL testbench results do not depend on the power-on state.

  Model: `Tb/Model.lean` (hextb.cpp `run()` at half-clock-period granularity over the RTL
  semantics GENERATED from verilog/*.sv; `Tb.start r₀ io` is the loop entry with an ARBITRARY
  power-on state `r₀`: registers pc/areg/breg/oreg and all of `memory_q` as `load()` left it).
  Tie: the translator regenerates the RTL model on every run (as for C03); the timing model of the
  loop and of `eval()` is validated by `./check C13` on the real hextb.cpp over Verilator seeds and
  directly planted adversarial power-on states.
-/
namespace Hex.Properties.C13
open Hex Hex.Rtl Hex.Isa Hex.Tb

/-- **C13, the reset window.**  For EVERY power-on state: during the first ten half periods
    (time 1..10) no system call is serviced (`serviced = 0`, the I/O state is untouched), nothing
    is stored (the memory at the end is exactly the memory `load()` left — image intact), and the
    processor ends in its start state `pc = areg = breg = oreg = 0` with reset released. -/
theorem C13_reset (r₀ : RtlSt) (io : Isa.IOSt) :
    ∃ s, steps 10 (start r₀ io) = .running s ∧
      s.serviced = 0 ∧ s.io = io ∧ s.rst = false ∧ s.clk = false ∧ s.t = 10 ∧
      s.r = { u_processor__pc_q := 0#21, u_processor__areg_q := 0#32, u_processor__breg_q := 0#32,
              u_processor__oreg_q := 0#32, u_memory__memory_q := r₀.mem } := by
  refine ⟨_, reset_phase r₀ io, rfl, rfl, rfl, rfl, rfl, ?_⟩
  exact resetState_eq r₀

/-- The reset arm itself: whatever the registers hold and whatever instruction they make the
    processor look at, one event with reset high clears them and writes nothing. -/
theorem C13_reset_edge (r : RtlSt) :
    resetEdge r = { u_processor__pc_q := 0#21, u_processor__areg_q := 0#32, u_processor__breg_q := 0#32,
                    u_processor__oreg_q := 0#32, u_memory__memory_q := r.mem } := resetEdge_eq r

/-- **C13, execution begins at address 0 and is the ISA's.**  After the reset window, `n` clock
    periods of hextb produce exactly the I/O history and exit value of the first `n` ISA
    instructions from `pc = areg = breg = oreg = 0` on the memory `load()` left — the power-on
    registers do not occur in the right-hand side at all. -/
theorem C13_run (r₀ : RtlSt) (io : Isa.IOSt) (n : Nat) (out : Isa.Outcome)
    (h : isaRun n { pc := 0#32, a := 0#32, b := 0#32, o := 0#32, mem := absMem r₀.mem } io = some out) :
    obs (steps (10 + 2 * n) (start r₀ io)) = obsOutcome out := by
  apply tb_run_isa
  have : abs (resetEdge r₀) = { pc := 0#32, a := 0#32, b := 0#32, o := 0#32, mem := absMem r₀.mem } := by
    rw [resetEdge_eq]; rfl
  rw [this]; exact h

/-- **C13.**  Two power-on states that agree on the first `k` words of memory (the loaded image)
    and differ arbitrarily in all four registers and in every other memory word give the same
    output and the same exit value, for every input and every run length, provided the program's
    ISA run is defined/in range and reads only image words and words it has written itself
    (`ReadsOnly`, the quantifier's "programs that never read memory they have not written"). -/
theorem C13 (k : Nat) (r₁ r₂ : RtlSt) (io : Isa.IOSt) (n : Nat) (out : Isa.Outcome)
    (himg : ∀ i, i < k → i < memWords → r₁.mem (BitVec.ofNat 19 i) = r₂.mem (BitVec.ofNat 19 i))
    (hrun : isaRun n { pc := 0#32, a := 0#32, b := 0#32, o := 0#32, mem := absMem r₁.mem } io = some out)
    (hro : ReadsOnly (fun i => i < k ∧ i < memWords) n
             { pc := 0#32, a := 0#32, b := 0#32, o := 0#32, mem := absMem r₁.mem } io) :
    obs (steps (10 + 2 * n) (start r₁ io)) = obs (steps (10 + 2 * n) (start r₂ io)) := by
  have hag : AgreeOn (fun i => i < k ∧ i < memWords) (absMem r₁.mem) (absMem r₂.mem) := by
    intro i hi
    rw [absMem_read _ _ hi.2, absMem_read _ _ hi.2]
    exact himg i hi.1 hi.2
  obtain ⟨out₂, h2, ho⟩ := isaRun_agree n (fun i => i < k ∧ i < memWords)
    { pc := 0#32, a := 0#32, b := 0#32, o := 0#32, mem := absMem r₁.mem }
    { pc := 0#32, a := 0#32, b := 0#32, o := 0#32, mem := absMem r₂.mem } io out
    ⟨rfl, rfl, rfl, rfl⟩ hag hro hrun
  rw [C13_run r₁ io n out hrun, C13_run r₂ io n out₂ h2, ho]

/-- Non-vacuity: two power-on states differing in every register exist, and `C13_reset` applies to
    both (it has no hypotheses). -/
example : ∃ r₁ r₂ : RtlSt, r₁.pc ≠ r₂.pc ∧ r₁.areg ≠ r₂.areg :=
  ⟨⟨0#21, 0#32, 0#32, 0#32, fun _ => 0#32⟩, ⟨5#21, 7#32, 0#32, 0#32, fun _ => 0#32⟩, by decide, by decide⟩

end Hex.Properties.C13
