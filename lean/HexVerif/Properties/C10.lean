import HexVerif.Lemmas.AsmDebug
/-
  C10 — hexasm accepts or cleanly rejects every input.
  Model: the whole of hexasm.hpp from the source bytes: `Asm.tokenize` (Lexer), `Asm.parseProgram`
  (Parser), `Asm.assemble` (CodeGen).  Every model function is total (Lean checks termination:
  the lexer is structural on the byte list, the parser is well-founded on the token count,
  `nibLoop` on the magnitude, label resolution by the slack measure below), and the result type
  has exactly three shapes: an image, a diagnostic (with nothing emitted — the diagnostic arm
  carries no image), or `fuel`, which is shown unreachable.
  PARTIAL by nature: that the C++ executes no undefined behaviour *the model does not name* is
  shown only on the generated inputs of `./check C10` (ASan/UBSan/_GLIBCXX_ASSERTIONS).
-/
namespace Hex.Properties.C10
open Hex Hex.Asm

/-- **C10, totality and termination.**  For every byte string of fewer than 2^26 bytes, hexasm
    either emits an image or reports a diagnostic; label resolution always terminates. -/
theorem C10 (src : List Byte) (hsmall : src.length + 2 < 2 ^ 26) :
    (∃ img p, Asm.run src = .ok img p) ∨ (∃ d, Asm.run src = .diag d) := by
  unfold Asm.run
  cases hparse : parseProgram (tokenize src) with
  | error e => exact Or.inr ⟨e, rfl⟩
  | ok p =>
    have hlen : p.length < 2 ^ 26 := by
      have h1 := parse_length _ _ hparse
      have h2 := lexGo_length src .start {}
      simp only [pending] at h2
      unfold tokenize at h1
      omega
    have hterm := assemble_terminates p (parse_ok _ _ hparse) hlen
    simp only
    cases ha : assemble p with
    | error e => exact Or.inr ⟨e, rfl⟩
    | ok o =>
      cases o with
      | none => exact absurd ha hterm
      | some img => exact Or.inl ⟨img, p, rfl⟩

/-- The iteration count of label resolution is bounded by `7 * n + 1` for `n` directives: each
    iteration that is not the last strictly decreases `slack` (= Σ (8 − stored length)). -/
theorem C10_layout_bound (p : List (Dir × Loc)) (hp : ParsedOk (p.map (·.1))) (hn : p.length < 2 ^ 26) :
    resolve p ≠ .ok none := by
  unfold resolve
  exact resolveFuel_terminates p hp hn _ _ (lensOk_init p) (by rw [slack_init]; omega)

/-- The empty source (the pinned tree crashed on it) is accepted with an empty image. -/
example : ∃ img p, Asm.run [] = .ok img p ∧ img.bytes = [] := by
  simp [Asm.run, tokenize, lexGo, flush, mk, parseProgram, assemble, resolve, resolveFuel, iterate,
    layoutGo, operandsGo, growLens, initLens, emitGo, align4]

end Hex.Properties.C10
