import HexVerif.Lemmas.XcmpFold
/-!
  Property C07: compile-time evaluation agrees with run-time evaluation.

  * `C07_un`, `C07_ops_partial`: for all 2^32 (2^64) operand values the folded value of an operator
    equals the value its generated code computes - for `and`/`or` with Boolean-typed operands (the
    property's own restriction) and, for the ordering comparisons, on the operand pairs whose
    difference is representable.
  * `C07_ops` is the full-strength statement; it is FALSE of the code (finding D23: folding compares
    mathematically, the generated code tests the sign of the wrapped difference):
    `C07_ops_counterexample`, `C07_ops_false`.
  * `C07_tree_partial`: for every expression tree and every placement of constant sub-trees, the code
    generated after constant propagation and relational rewriting computes what the all-run-time
    program computes, provided every folded node satisfies the side condition `FoldSafe`.
-/
namespace Hex.Xcmp
open Hex.X (BinOp UnOp)

/-- Monadic operators: folding and generated code agree for every operand. -/
theorem C07_un (op : UnOp) (a : Word) : foldUn op a = rtUn op a := foldUn_eq_rtUn op a

/-- C07 for the diadic operators, all operand pairs, with the region of finding D23 excluded. -/
theorem C07_ops_partial (op : BinOp) (a b : Word)
    (hbool : logical op = true → IsBool a ∧ IsBool b)
    (hdiff : ordering op = true → DiffFits a b ∧ DiffFits b a) :
    foldBin op a b = rtBin op a b := foldBin_eq_rtBin op a b hbool hdiff

/-- The full-strength statement of C07 for operators (no restriction on ordering comparisons). -/
def C07_ops : Prop :=
  ∀ (op : BinOp) (a b : Word), (logical op = true → IsBool a ∧ IsBool b) → foldBin op a b = rtBin op a b

/-- Finding D23: `2147483647 < (0-1)` folds to 0 but the generated code yields 1. -/
theorem C07_ops_counterexample :
    foldBin .ls 2147483647#32 (0#32 - 1#32) = 0 ∧ rtBin .ls 2147483647#32 (0#32 - 1#32) = 1 := by decide

theorem C07_ops_false : ¬ C07_ops := by
  intro h
  have := h .ls 2147483647#32 (0#32 - 1#32) (by intro h; cases h)
  revert this
  decide

/-- The excluded region is tight: `<` folds to what its code computes exactly when the operand
    difference is representable (so finding D23 is precisely "ordering comparison whose operand
    difference overflows"). -/
theorem C07_ls_iff (a b : Word) : foldBin .ls a b = rtBin .ls a b ↔ DiffFits a b :=
  foldLs_eq_rtLs_iff a b

/-- C07 for expression trees: any placement of constant sub-trees inside run-time expressions. -/
theorem C07_tree_partial (ρ : Nat → Word) (e : CExpr) (hs : FoldSafe e) : codeVal ρ e = runVal ρ e :=
  codeVal_eq_runVal ρ e hs

/-! Non-vacuity: the hypotheses are met by concrete non-trivial instances. -/

example : foldBin .ls 5#32 7#32 = rtBin .ls 5#32 7#32 :=
  C07_ops_partial .ls 5#32 7#32 (by intro h; cases h) (by intro _; decide)

/-- `x + (1 + 2)` (the D7 shape) and `(3 < 4) and (x = 0)`: constant sub-trees inside run-time trees. -/
example (ρ : Nat → Word) :
    codeVal ρ (.bin .plus (.leaf 0) (.bin .plus (.num 1) (.num 2))) = ρ 0 + 3 := by
  rw [C07_tree_partial ρ _ (by simp [FoldSafe, constVal])]
  simp [runVal, rtBin]

example :
    FoldSafe (.bin .and (.bin .ls (.num 3) (.num 4)) (.bin .eq (.leaf 0) (.num 0))) := by
  simp [FoldSafe, constVal, DiffFits]

end Hex.Xcmp
