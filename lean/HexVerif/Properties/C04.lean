import HexVerif.Lemmas.AsmEncode
import HexVerif.Lemmas.AsmLiteral
import HexVerif.Lemmas.XcmpAm
import HexVerif.Lemmas.AsmLayout
/-
  C04 — the assembler's prefix encoding reconstructs every 32-bit operand exactly.
  Model: `Asm.instrLen`/`Asm.encode` (hexasm.hpp `numNibbles`, `instrLen`, `emitProgramBin`);
  decoding is `Asm.decodeChain`, the ISA's own PFIX/NFIX accumulation from a clear operand
  register.  Tie: `./check C04` (real encoder vs model; ISA decode of the real bytes; thorough:
  all 2^32 values through the real encoder).
-/
namespace Hex.Properties.C04
open Hex Hex.Asm

/-- **C04.**  For each of the 12 immediate-taking opcodes and every one of the 2^32 operand
    values, the bytes hexasm emits are zero or more PFIX/NFIX bytes followed by the instruction
    byte (that is what `decodeChain` accepts), and executing them from a clear operand register
    delivers exactly that value to exactly that instruction, consuming exactly the emitted bytes.
    (Every non-prefix instruction then clears the operand register: `Isa.dispatch`.) -/
theorem C04 (opc : Nat) (hopc : opc < 12) (v : Word) (rest : List Byte) :
    decodeInstr (encode opc v.toInt (instrLen v.toInt) ++ rest)
      = some (opc, v, instrLen v.toInt, rest) := by
  have hr : InInt32 v.toInt := by
    have h1 := BitVec.two_mul_toInt_lt (x := v)
    have h2 := BitVec.le_two_mul_toInt (x := v)
    unfold InInt32; constructor <;> omega
  obtain ⟨hf, h8⟩ := instrLen_spec v.toInt hr
  have := decode_encode opc (by omega) v.toInt (instrLen v.toInt) hf h8 rest
  rw [this]
  simp [W]

/-- The length is between 1 and 8 bytes and is sufficient; any longer stored length (as label
    references may carry) decodes to the same value. -/
theorem C04_length (v : Word) : 1 ≤ instrLen v.toInt ∧ instrLen v.toInt ≤ 8 := by
  have hr : InInt32 v.toInt := by
    have h1 := BitVec.two_mul_toInt_lt (x := v)
    have h2 := BitVec.le_two_mul_toInt (x := v)
    unfold InInt32; constructor <;> omega
  obtain ⟨hf, h8⟩ := instrLen_spec v.toInt hr
  exact ⟨hf.1, h8⟩

theorem C04_any_sufficient_length (opc : Nat) (hopc : opc < 12) (v : Int) (size : Nat)
    (hf : fits v size) (h8 : size ≤ 8) (rest : List Byte) :
    decodeInstr (encode opc v size ++ rest) = some (opc, BitVec.ofInt 32 v, size, rest) :=
  decode_encode opc (by omega) v size hf h8 rest

/-- Literals: `-n` and unsigned spellings denote the same operand modulo 2^32
    (`parseInteger` computes `-lexer.getNumber()` on `unsigned`, then converts to `int`). -/
theorem C04_literal_neg (n : Nat) :
    BitVec.ofInt 32 (wrap32 (-(n : Int))) = - BitVec.ofNat 32 n := by
  apply BitVec.eq_of_toNat_eq
  simp only [wrap32, BitVec.toNat_ofInt, BitVec.toNat_neg, BitVec.toNat_ofNat]
  omega

theorem C04_literal_pos (n : Nat) : BitVec.ofInt 32 (wrap32 (n : Int)) = BitVec.ofNat 32 n := by
  apply BitVec.eq_of_toNat_eq
  simp only [wrap32, BitVec.toNat_ofInt, BitVec.toNat_ofNat]
  omega

/-- **C04, literals.** Written as an unsigned decimal `n < 2^32`, or as `-n`, the operand the
    parser hands to the encoder denotes `n`, respectively `-n`, modulo 2^32: the lexer's
    `(unsigned) strtoul` returns `n` for the decimal spelling of `n`, and `parseInteger` converts
    with wrap-around. Together with `C04` the emitted bytes deliver exactly that value. -/
theorem C04_literal (n : Nat) (h : n < 2 ^ 32) :
    strtoul32 (decimalBytes n) = n ∧
    BitVec.ofInt 32 (wrap32 ((strtoul32 (decimalBytes n) : Nat) : Int)) = BitVec.ofNat 32 n ∧
    BitVec.ofInt 32 (wrap32 (-((strtoul32 (decimalBytes n) : Nat) : Int))) = - BitVec.ofNat 32 n := by
  rw [strtoul32_decimal n h]
  exact ⟨rfl, C04_literal_pos n, C04_literal_neg n⟩

/-- **C04, unique decodability.**  The emitted chains are prefix-free: two instruction streams
    that begin with the same bytes begin with the same instruction (opcode and 32-bit operand) and
    continue with the same bytes.  No two (opcode, operand) pairs share an encoding, and no
    encoding is a proper prefix of another. -/
theorem C04_stream_unique (opc opc' : Nat) (hopc : opc < 12) (hopc' : opc' < 12) (v v' : Word)
    (rest rest' : List Byte)
    (h : encode opc v.toInt (instrLen v.toInt) ++ rest
          = encode opc' v'.toInt (instrLen v'.toInt) ++ rest') :
    opc = opc' ∧ v = v' ∧ rest = rest' := by
  have h1 := C04 opc hopc v rest
  have h2 := C04 opc' hopc' v' rest'
  rw [h, h2] at h1
  simp only [Option.some.injEq, Prod.mk.injEq] at h1
  exact ⟨h1.1.symm, h1.2.1.symm, h1.2.2.2.symm⟩

/-- lower bound half of `nibLoop_spec`. -/
theorem nibLoop_lower (m n : Nat) :
    ∃ k, nibLoop m n = n + k ∧ (k = 0 ∨ 16 ^ k ≤ m) := by
  obtain ⟨k, h1, _, h3⟩ := nibLoop_spec m n
  exact ⟨k, h1, h3⟩

/-- The length hexasm chooses is the least sufficient one, except at the negative boundaries
    `v = -16^size`, where `numNibbles` counts the nibbles of the magnitude and spends one NFIX
    more than needed (see the example below: still a correct encoding by `C04`). -/
theorem C04_length_minimal (v : Int) (size : Nat) (hf : fits v size)
    (hb : v < 0 → -(16 ^ size : Int) < v) : instrLen v ≤ size := by
  obtain ⟨h1, h2⟩ := hf
  unfold instrLen numNibbles
  by_cases h0 : v = 0
  · subst h0; simp; omega
  · simp only [h0, if_false]
    by_cases hsmall : v < 0 ∧ v.natAbs < 16
    · simp only [hsmall, and_self, if_true]
      have hv := hsmall.1
      simp only [hv, if_true] at h2
      simp; omega
    · simp only [hsmall, if_false]
      obtain ⟨k, hk, hge⟩ := nibLoop_lower v.natAbs 1
      rw [hk]
      have hsz : 1 + k ≤ size := by
        rcases hge with rfl | hge
        · omega
        · rcases Nat.lt_or_ge size (1 + k) with hlt | hok
          · exfalso
            have hle : size ≤ k := by omega
            have hp : (16 ^ size : Nat) ≤ 16 ^ k := Nat.pow_le_pow_right (by decide) hle
            have hp' : ((16 ^ size : Nat) : Int) ≤ (v.natAbs : Int) := by
              exact_mod_cast Nat.le_trans hp hge
            push_cast at hp'
            by_cases hv : v < 0
            · have := hb hv
              omega
            · simp only [hv, if_false] at h2
              omega
          · exact hok
      by_cases hc : v < 0 ∧ 1 + k = 1
      · simp only [hc, and_self, if_true]
        have hv := hc.1
        simp only [hv, if_true] at h2; omega
      · simp only [hc, if_false]; exact hsz

/-- Minimality for the 32-bit operands of `C04`: no shorter chain than the emitted one fits. -/
theorem C04_no_shorter (v : Word) (size : Nat) (hlt : size < instrLen v.toInt)
    (hb : v.toInt < 0 → -(16 ^ size : Int) ≠ v.toInt) : ¬ fits v.toInt size := by
  intro hf
  have hb' : v.toInt < 0 → -(16 ^ size : Int) < v.toInt := by
    intro hv
    have h2 := hf.2
    simp only [hv, if_true] at h2
    have := hb hv
    omega
  have := C04_length_minimal v.toInt size hf hb'
  omega

/-- The boundary case really is one byte longer than necessary on the real encoder's rule:
    `-256` fits two bytes (`NFIX 0; op 0`) and gets three. -/
example : fits (-256) 2 ∧ instrLen (-256) = 3 := by
  constructor
  · unfold fits; decide
  · simp [instrLen, numNibbles, nibLoop]

theorem nibLoop_pow (k n : Nat) : nibLoop (16 ^ k) n = n + k := by
  induction k generalizing n with
  | zero => rw [nibLoop]; simp
  | succ k ih =>
    rw [nibLoop]
    have h : 16 ^ (k + 1) ≥ 16 := by
      have : 16 ^ 1 ≤ 16 ^ (k + 1) := Nat.pow_le_pow_right (by decide) (by omega)
      simpa using this
    rw [dif_pos h]
    have : 16 ^ (k + 1) / 16 = 16 ^ k := by
      rw [Nat.pow_succ]; exact Nat.mul_div_cancel _ (by decide)
    rw [this, ih]; omega

/-- The exceptional operands of `C04_length_minimal`, exactly: `-16^k` (k ≥ 2) is given `k + 1`
    bytes although `k` bytes fit - for every k, not just the `-256` of the example. -/
theorem C04_length_at_boundary (k : Nat) (hk : 2 ≤ k) :
    instrLen (-(16 ^ k : Int)) = k + 1 ∧ fits (-(16 ^ k : Int)) k := by
  have hpos : (0 : Int) < 16 ^ k := Int.pow_pos (by decide)
  constructor
  · unfold instrLen numNibbles
    have h0 : ¬ (-(16 ^ k : Int)) = 0 := by omega
    have hna : (-(16 ^ k : Int)).natAbs = 16 ^ k := by
      rw [Int.natAbs_neg]; exact_mod_cast Int.natAbs_natCast (16 ^ k)
    have hbig : ¬ (16 ^ k < 16) := by
      have : 16 ^ 2 ≤ 16 ^ k := Nat.pow_le_pow_right (by decide) hk
      omega
    simp only [h0, if_false, hna, hbig, and_false, nibLoop_pow]
    have hk0 : ¬ k = 0 := by omega
    simp [hk0]; omega
  · refine ⟨by omega, ?_⟩
    have : (-(16 ^ k : Int)) < 0 := by omega
    simp only [this, if_true]
    exact ⟨hk, Int.le_refl _⟩

/-! ### Whole instruction streams

    `C04` speaks of one instruction followed by arbitrary bytes; by induction the same holds for a
    straight-line sequence of any length: decoding the concatenated chains with the ISA's prefix
    rule gives back exactly the sequence of (opcode, operand) pairs, and the encoding of sequences
    is injective. -/

/-- bytes of a straight-line sequence of immediate instructions. -/
def encodeAll (is : List (Nat × Word)) : List Byte :=
  is.flatMap fun i => encode i.1 i.2.toInt (instrLen i.2.toInt)

/-- decoding a whole stream with the ISA's prefix rule, instruction by instruction. -/
def decodeAll : Nat → List Byte → Option (List (Nat × Word))
  | 0, _ => none
  | _, [] => some []
  | fuel + 1, bs =>
    match decodeInstr bs with
    | some (opc, v, _, rest) => (decodeAll fuel rest).map ((opc, v) :: ·)
    | none => none

theorem C04_program (is : List (Nat × Word)) (h : ∀ i ∈ is, i.1 < 12) (fuel : Nat)
    (hfuel : is.length < fuel) : decodeAll fuel (encodeAll is) = some is := by
  induction is generalizing fuel with
  | nil => cases fuel with
    | zero => omega
    | succ f => simp [encodeAll, decodeAll]
  | cons i is ih =>
    cases fuel with
    | zero => omega
    | succ f =>
      have hi := h i (by simp)
      have hne : encode i.1 i.2.toInt (instrLen i.2.toInt) ++ encodeAll is ≠ [] := by
        simp [encode]
      have hc : encodeAll (i :: is) = encode i.1 i.2.toInt (instrLen i.2.toInt) ++ encodeAll is := by
        simp [encodeAll]
      rw [hc]
      have hd := C04 i.1 hi i.2 (encodeAll is)
      have ih' := ih (fun j hj => h j (by simp [hj])) f (by simp at hfuel; omega)
      generalize hb : encode i.1 i.2.toInt (instrLen i.2.toInt) ++ encodeAll is = bs at hd hne
      cases bs with
      | nil => exact absurd rfl hne
      | cons b bs =>
        simp only [decodeAll, hd, ih', Option.map_some]

theorem C04_program_unique (is js : List (Nat × Word)) (h : ∀ i ∈ is, i.1 < 12)
    (h' : ∀ j ∈ js, j.1 < 12) (he : encodeAll is = encodeAll js) : is = js := by
  have a := C04_program is h (is.length + js.length + 1) (by omega)
  have b := C04_program js h' (is.length + js.length + 1) (by omega)
  rw [he, b] at a
  exact (Option.some.inj a).symm

example : decodeAll 3 (encodeAll [(3, -1#32), (9, 16#32)]) = some [(3, -1#32), (9, 16#32)] :=
  C04_program _ (by decide) 3 (by decide)

/-! ### On the ISA itself

    `C04` decodes with `Asm.decodeChain`, a restatement of the PFIX/NFIX rule.  The next theorem
    removes that restatement from what has to be trusted: with the emitted bytes in memory at `pc`
    and a clear operand register, `instrLen v` steps of the ISA specification (`Isa.step`,
    hexb.pdf p.8) are exactly ONE dispatch of the instruction with the full operand `v` and the
    program counter behind the chain (`Am.chain_steps`). -/

/-- **C04 on the ISA specification.** -/
theorem C04_on_isa (opc : Nat) (hopc : opc < 12) (v : Word) (s : Isa.St) (io : Isa.IOSt)
    (ho : s.o = 0)
    (hmem : Am.fetchList s.mem s.pc (instrLen v.toInt)
              = some (encode opc v.toInt (instrLen v.toInt))) :
    Am.stepN (instrLen v.toInt) s io
      = Isa.dispatch { s with pc := s.pc + BitVec.ofNat 32 (instrLen v.toInt), o := v } io opc := by
  have hl : (encode opc v.toInt (instrLen v.toInt)).length = instrLen v.toInt :=
    encode_length opc v.toInt _ (C04_length v).1
  have hd := C04 opc hopc v []
  simp only [List.append_nil] at hd
  have := Am.chain_steps (encode opc v.toInt (instrLen v.toInt)) 8 0 s io opc v
    (by rw [hl]; exact hmem)
    (by rw [ho, hl]; unfold decodeInstr at hd; rw [hd]; simp)
  rw [hl] at this
  exact this

/-- ... and every one of the 12 immediate-taking instructions leaves the operand register clear
    (when it does not fault on a memory access). -/
theorem C04_oreg_clear (opc : Nat) (hopc : opc < 12) (s s' : Isa.St) (io io' : Isa.IOSt)
    (h : Isa.dispatch s io opc = .running s' io') : s'.o = 0 := by
  have : opc = 0 ∨ opc = 1 ∨ opc = 2 ∨ opc = 3 ∨ opc = 4 ∨ opc = 5 ∨ opc = 6 ∨ opc = 7 ∨ opc = 8
      ∨ opc = 9 ∨ opc = 10 ∨ opc = 11 := by omega
  rcases this with rfl | rfl | rfl | rfl | rfl | rfl | rfl | rfl | rfl | rfl | rfl | rfl <;>
    simp only [Isa.dispatch] at h <;> (try split at h) <;> simp_all <;>
    (try (obtain ⟨h1, _⟩ := h; subst h1; rfl))

/-- Non-vacuity / regression examples, including the value the pinned tree got wrong. -/
example : encode 3 (-2147483648) (instrLen (-2147483648)) = [0xF8, 0xE0, 0xE0, 0xE0, 0xE0, 0xE0, 0xE0, 0x30] := by
  have : instrLen (-2147483648) = 8 := by simp [instrLen, numNibbles, nibLoop]
  rw [this]; decide
example : encode 3 (-1) (instrLen (-1)) = [0xFF, 0x3F] := by
  have : instrLen (-1) = 2 := by simp [instrLen, numNibbles]
  rw [this]; decide
example : encode 9 16 (instrLen 16) = [0xE1, 0x90] := by
  have : instrLen 16 = 2 := by simp [instrLen, numNibbles, nibLoop]
  rw [this]; decide

end Hex.Properties.C04
