import HexVerif.Lemmas.AsmEncode
import HexVerif.Lemmas.AsmLiteral
/-
  C04 — the assembler's prefix encoding reconstructs every 32-bit operand exactly.
  Model: `Asm.instrLen`/`Asm.encode` (hexasm.hpp `numNibbles`, `instrLen`, `emitProgramBin`);
  decoding is `Asm.decodeChain`, the ISA's own PFIX/NFIX accumulation from a clear operand
  register.  Tie: `./check C04` (real encoder vs model; ISA decode of the real bytes; thorough:
  all 2^32 values through the real encoder).
-/
namespace Hex.Properties.C04
open Hex Hex.Asm

/-- **C04.**  For each of the 12 immediate-taking opcodes and every one of the 2^32 operand
    values, the bytes hexasm emits are zero or more PFIX/NFIX bytes followed by the instruction
    byte (that is what `decodeChain` accepts), and executing them from a clear operand register
    delivers exactly that value to exactly that instruction, consuming exactly the emitted bytes.
    (Every non-prefix instruction then clears the operand register: `Isa.dispatch`.) -/
theorem C04 (opc : Nat) (hopc : opc < 12) (v : Word) (rest : List Byte) :
    decodeInstr (encode opc v.toInt (instrLen v.toInt) ++ rest)
      = some (opc, v, instrLen v.toInt, rest) := by
  have hr : InInt32 v.toInt := by
    have h1 := BitVec.two_mul_toInt_lt (x := v)
    have h2 := BitVec.le_two_mul_toInt (x := v)
    unfold InInt32; constructor <;> omega
  obtain ⟨hf, h8⟩ := instrLen_spec v.toInt hr
  have := decode_encode opc (by omega) v.toInt (instrLen v.toInt) hf h8 rest
  rw [this]
  simp [W]

/-- The length is between 1 and 8 bytes and is sufficient; any longer stored length (as label
    references may carry) decodes to the same value. -/
theorem C04_length (v : Word) : 1 ≤ instrLen v.toInt ∧ instrLen v.toInt ≤ 8 := by
  have hr : InInt32 v.toInt := by
    have h1 := BitVec.two_mul_toInt_lt (x := v)
    have h2 := BitVec.le_two_mul_toInt (x := v)
    unfold InInt32; constructor <;> omega
  obtain ⟨hf, h8⟩ := instrLen_spec v.toInt hr
  exact ⟨hf.1, h8⟩

theorem C04_any_sufficient_length (opc : Nat) (hopc : opc < 12) (v : Int) (size : Nat)
    (hf : fits v size) (h8 : size ≤ 8) (rest : List Byte) :
    decodeInstr (encode opc v size ++ rest) = some (opc, BitVec.ofInt 32 v, size, rest) :=
  decode_encode opc (by omega) v size hf h8 rest

/-- Literals: `-n` and unsigned spellings denote the same operand modulo 2^32
    (`parseInteger` computes `-lexer.getNumber()` on `unsigned`, then converts to `int`). -/
theorem C04_literal_neg (n : Nat) :
    BitVec.ofInt 32 (wrap32 (-(n : Int))) = - BitVec.ofNat 32 n := by
  apply BitVec.eq_of_toNat_eq
  simp only [wrap32, BitVec.toNat_ofInt, BitVec.toNat_neg, BitVec.toNat_ofNat]
  omega

theorem C04_literal_pos (n : Nat) : BitVec.ofInt 32 (wrap32 (n : Int)) = BitVec.ofNat 32 n := by
  apply BitVec.eq_of_toNat_eq
  simp only [wrap32, BitVec.toNat_ofInt, BitVec.toNat_ofNat]
  omega

/-- **C04, literals.** Written as an unsigned decimal `n < 2^32`, or as `-n`, the operand the
    parser hands to the encoder denotes `n`, respectively `-n`, modulo 2^32: the lexer's
    `(unsigned) strtoul` returns `n` for the decimal spelling of `n`, and `parseInteger` converts
    with wrap-around. Together with `C04` the emitted bytes deliver exactly that value. -/
theorem C04_literal (n : Nat) (h : n < 2 ^ 32) :
    strtoul32 (decimalBytes n) = n ∧
    BitVec.ofInt 32 (wrap32 ((strtoul32 (decimalBytes n) : Nat) : Int)) = BitVec.ofNat 32 n ∧
    BitVec.ofInt 32 (wrap32 (-((strtoul32 (decimalBytes n) : Nat) : Int))) = - BitVec.ofNat 32 n := by
  rw [strtoul32_decimal n h]
  exact ⟨rfl, C04_literal_pos n, C04_literal_neg n⟩

/-- Non-vacuity / regression examples, including the value the pinned tree got wrong. -/
example : encode 3 (-2147483648) (instrLen (-2147483648)) = [0xF8, 0xE0, 0xE0, 0xE0, 0xE0, 0xE0, 0xE0, 0x30] := by
  have : instrLen (-2147483648) = 8 := by simp [instrLen, numNibbles, nibLoop]
  rw [this]; decide
example : encode 3 (-1) (instrLen (-1)) = [0xFF, 0x3F] := by
  have : instrLen (-1) = 2 := by simp [instrLen, numNibbles]
  rw [this]; decide
example : encode 9 16 (instrLen 16) = [0xE1, 0x90] := by
  have : instrLen 16 = 2 := by simp [instrLen, numNibbles, nibLoop]
  rw [this]; decide

end Hex.Properties.C04
