import HexVerif.Rtl.Refine
/-
  C03 — the Verilog processor (processor.sv + memory.sv + hex.sv) is cycle-for-cycle equivalent
  to the ISA.

  The RTL model is GENERATED from the Verilog on every run (translator/sv2lean.py →
  Rtl/Gen/Sv.lean, namespace `Hex.Rtl.Gen.Sv`): `Sv.Hex.ff` is the body of every clocked block
  of the flattened design, `Sv.Hex.comb` its combinational logic.  `Rtl/Sem.lean` gives the
  `posedge i_clk or posedge i_rst` semantics (`cycle` = clock edge with reset low, `resetEdge` =
  event with reset high) and the abstraction `abs : RtlSt → Isa.St` (pc zero-extended from 21
  bits, registers equal, word `w < 200000` of `memory_q` = `mem[w]`).  The ISA is
  `Isa.step` of Isa/Spec.lean.  Proofs: Rtl/IsaCore.lean, Rtl/Lemmas.lean, Rtl/Refine.lean.
-/
namespace Hex.Properties.C03
open Hex Hex.Rtl

/-- **C03, invariant.**  `oreg_q` has a clear low nibble after reset and after every clock
    (for every fetched byte, defined or not, and every memory content); the reset arm clears
    all four registers whatever the previous state. -/
theorem C03_inv :
    (∀ r : RtlSt, OregAligned (resetEdge r)) ∧
    (∀ r : RtlSt, (resetEdge r).pc = 0#21 ∧ (resetEdge r).areg = 0#32 ∧ (resetEdge r).breg = 0#32 ∧
        (resetEdge r).oreg = 0#32) ∧
    (∀ r : RtlSt, OregAligned r → OregAligned (cycle r)) := by
  refine ⟨aligned_reset, fun r => ?_, aligned_cycle⟩
  have h := reset_regs r
  exact ⟨congrArg (·.pc_q) h, congrArg (·.areg_q) h, congrArg (·.breg_q) h, congrArg (·.oreg_q) h⟩

/-- **C03, "started from reset on the same memory image".**  A reset event (rising `i_rst`, or a
    rising clock while `i_rst` is high) writes nothing: the memory after reset is the memory
    before it, for every state and every byte the processor happens to be looking at.  (Holds
    since memory.sv qualifies its write enable with `!i_rst`; on the earlier tree a STAM/STAI under
    reset stored.)  With `C03_inv` the state after reset abstracts to the ISA's start state
    `pc = areg = breg = oreg = 0` on the same image. -/
theorem C03_reset_mem (r : RtlSt) :
    (resetEdge r).mem = r.mem ∧
    abs (resetEdge r) = { pc := 0#32, a := 0#32, b := 0#32, o := 0#32, mem := (abs r).mem } := by
  have hm := reset_mem r
  have h := reset_regs r
  refine ⟨hm, ?_⟩
  have h1 : (resetEdge r).pc = 0#21 := congrArg (·.pc_q) h
  have h2 : (resetEdge r).areg = 0#32 := congrArg (·.areg_q) h
  have h3 : (resetEdge r).breg = 0#32 := congrArg (·.breg_q) h
  have h4 : (resetEdge r).oreg = 0#32 := congrArg (·.oreg_q) h
  simp only [abs, h1, h2, h3, h4, hm]
  rfl

/-- **C03, one clock = one instruction.**  For every state of the flattened design whose `oreg`
    is aligned (all reachable states, `C03_inv`), whose fetched byte is defined in the ISA and is
    not SVC, and which is in range (`InRange`: fetch address, taken branch targets and the LDAP
    result below 800000, data word addresses below 200000): the ISA step from `abs r` is defined,
    leaves the I/O state alone, and its successor is exactly `abs` of the RTL state after one
    rising clock edge — pc, areg, breg, oreg and the whole memory below word 200000; and the one
    word the memory writes in that cycle is the ISA's store (same address, data `areg`). -/
theorem C03_step (r : RtlSt) (io : Isa.IOSt)
    (ha : OregAligned r) (hd : DefinedByte r) (hs : ¬ FetchIsSvc r) (hr : InRange r) :
    Isa.step (abs r) io = .running (abs (cycle r)) io ∧
    memWrite r =
      (if Isa.isStore (fetchByte r) then
        some ((Isa.effAddr r.areg r.breg r.oreg (fetchByte r)).setWidth 19, r.areg)
       else none) :=
  ⟨step_refines r io ha hd hs hr, memWrite_refines r hr⟩

/-- **C03, system-call request.**  `o_syscall_valid` is raised exactly when the fetched byte is
    0xD3 — for an aligned `oreg` and a defined byte, exactly when the fetched instruction is
    `OPR SVC` in the ISA — and `o_syscall` is `areg[1:0]`.  In that cycle the ISA enters `svc`
    with the state `svcEntry`, and the RTL's own effect is the register part of `svc`
    (`pc+1`, `oreg = 0`, `areg`/`breg` kept), memory untouched: the rest of `svc` is the test
    bench's job. -/
theorem C03_svc (r : RtlSt) :
    (sysValid r = 1#1 ↔ fetchByte r = 0xD3#8) ∧
    sysCall r = r.areg.setWidth 2 ∧
    (OregAligned r → DefinedByte r → (sysValid r = 1#1 ↔ FetchIsSvc r)) ∧
    (∀ io, OregAligned r → FetchIsSvc r → InRange r →
      Isa.step (abs r) io = Isa.svc (Isa.svcEntry (abs r) (fetchByte r)) io ∧
      abs (cycle r) = { Isa.svcEntry (abs r) (fetchByte r) with o := 0#32 }) :=
  ⟨sysValid_iff r, sysCall_eq r, sysValid_iff_svc r, fun io ha hs hr => svc_cycle r io ha hs hr⟩

/-- **C03, runs.**  System = RTL + a test bench `tb` that services the requests.  For every
    bench that does what `Isa.svc` does (`TbRefines`; the parameter is the system call's effect,
    which the design delegates), every start state with aligned `oreg` — in particular the
    state after reset on any memory image — every input, and every `n`: if the first `n` ISA
    instructions are defined and in range (`isaRun … = some out`), then after `n` clocks the
    system, seen through `abs`, is exactly the ISA outcome after `n` instructions: same
    registers, same memory, same I/O history, same exit value.  One instruction retires per
    clock by construction (`sysRun` counts clocks, `isaRun` counts instructions). -/
theorem C03_run (tb : Tb) (htb : TbRefines tb) (n : Nat) (r : RtlSt) (io : Isa.IOSt)
    (out : Isa.Outcome) (ha : OregAligned r) (h : isaRun n (abs r) io = some out) :
    absResult (sysRun tb n r io) = out :=
  run_refines tb htb n r io out ha h

/-- The bench parameter of `C03_run` is not vacuous: `refTb` — hextb.cpp's `handleSyscall`
    over `memory_q` — satisfies it. -/
theorem C03_run_bench : TbRefines refTb := refTb_refines

/-- From reset: the hypothesis `OregAligned` of `C03_run` holds for the reset state. -/
theorem C03_run_from_reset (tb : Tb) (htb : TbRefines tb) (n : Nat) (r₀ : RtlSt) (io : Isa.IOSt)
    (out : Isa.Outcome) (h : isaRun n (abs (resetEdge r₀)) io = some out) :
    absResult (sysRun tb n (resetEdge r₀) io) = out :=
  run_refines tb htb n _ io out (aligned_reset r₀) h

/-- `OregAligned` is needed: with `oreg = 1` the byte 0xD0 (OPR, operand 0) is ADD in the ISA
    (`oreg | 0 = 1`) but BRB in the RTL, which decodes the instruction's own operand nibble. -/
example : ∃ (pc : BitVec 21) (a b : Word),
    regsOf (Gen.Sv.Processor.ff ⟨⟩ (procIn 0#1 0xD0#8 0#32) ⟨pc, a, b, 1#32⟩)
      ≠ Isa.coreRegs (regsOf ⟨pc, a, b, 1#32⟩) 0xD0#8 0#32 :=
  ⟨0#21, 1#32, 4#32, by decide⟩

/-- Non-vacuity of `C03_step`: a state satisfying all four hypotheses (pc = 0, memory word 0 =
    0x31 `LDAC 1`, everything else zero). -/
example : ∃ r : RtlSt, OregAligned r ∧ DefinedByte r ∧ ¬ FetchIsSvc r ∧ InRange r :=
  ⟨⟨0#21, 0#32, 0#32, 0#32, fun k => if k = 0#19 then 0x31#32 else 0#32⟩, by decide⟩

/-- Non-vacuity of `C03_svc`: a state whose fetched byte is OPR SVC. -/
example : ∃ r : RtlSt, OregAligned r ∧ FetchIsSvc r ∧ InRange r ∧ sysValid r = 1#1 :=
  ⟨⟨0#21, 0#32, 0#32, 0#32, fun _ => 0xD3#32⟩, by decide⟩

end Hex.Properties.C03
