import HexVerif.Lemmas.SimIsa
/-
  C02 — hexsim executes every instruction exactly as the Hex ISA defines.

  `Isa.step`/`Isa.run` (Isa/Spec.lean) transliterate the reference simulator of hexb.pdf;
  `Sim.stepBody`/`Sim.run` (Sim/Model.lean) follow hexsim.hpp as written.  The tie between
  `Sim.*` and the C++ is the correspondence check `./check C02` (harness/h_sim.cpp).
-/
namespace Hex.Properties.C02
open Hex Hex.Sim

/-- **C02, one step.**  For every instruction byte (all 256, including the ones the ISA leaves
    undefined) and every architectural state, memory content and I/O state, one iteration of
    hexsim's loop yields exactly the ISA successor: same registers, same memory, same I/O
    events, same exit value; an ISA-undefined byte is exactly a thrown `runtime_error`, an
    out-of-range effective address exactly an out-of-range `std::array` index. -/
theorem C02_step (p : Proc) (hr : p.running = true) (ht : p.truncateInputs = true) :
    toOutcome (stepBody p) = Isa.step (abs p) p.io :=
  step_refines p hr ht

/-- **C02, whole runs.**  For every run length, hexsim's `run()` (without a cycle limit)
    and the ISA produce the same observation: exit value, final architectural state and the
    complete I/O history (bytes written per stream in order, bytes consumed from each input),
    or the same kind of undefinedness, or both are still running in the same state. -/
theorem C02_run (fuel : Nat) (p : Proc) (k : Nat) (hr : p.running = true)
    (ht : p.truncateInputs = true) (hm : p.maxCycles = 0) :
    obsSim (run fuel p) = obsIsa (Isa.run fuel (abs p) p.io k) :=
  run_refines fuel p k hr ht hm

/-- The little-endian lemma: hexsim's word-shift-mask fetch is the byte view `pmem[pc]`. -/
theorem C02_fetch (w pc : Word) :
    (w >>> (((pc &&& 3#32) <<< 3).toNat)) &&& 255#32 = (byteOfWord w (pc &&& 3#32).toNat).zeroExtend 32 :=
  fetch_word_eq w pc

/-- Non-vacuity: the constructor state satisfies the hypotheses of `C02_step`/`C02_run`. -/
example (j : Junk) (io : Isa.IOSt) :
    (Proc.mk' j io).running = true ∧ (Proc.mk' j io).truncateInputs = true ∧ (Proc.mk' j io).maxCycles = 0 :=
  ⟨rfl, rfl, rfl⟩

end Hex.Properties.C02
