import HexVerif.Lemmas.SimIsa
import HexVerif.Lemmas.SimMaxCycles
/-
  C12 — a simulator run depends only on the binary, the input and the options.
  Model: Sim/Model.lean (`Proc.mk'` is the constructor after the D20 repair, `Proc.mkPinned`
  the pinned one).  Tie: `./check C12` (placement-new on dirtied storage, -t on/off, limits).
-/
namespace Hex.Properties.C12
open Hex Hex.Sim

/-- **Junk independence.**  Whatever the storage of the `Processor` object held before
    construction (`instr`, `instrEnum` are the members the constructor still leaves
    indeterminate), a run observes the same thing. -/
theorem C12_junk (fuel : Nat) (j₁ j₂ : Junk) (io : Isa.IOSt) (maxCycles : Nat) (file : List Byte)
    (p₁ p₂ : Proc) (h₁ : load (Proc.mk' j₁ io maxCycles) file = some p₁)
    (h₂ : load (Proc.mk' j₂ io maxCycles) file = some p₂) :
    obsSim (run fuel p₁) = obsSim (run fuel p₂) := by
  have key : ∀ j, load (Proc.mk' j io maxCycles) file =
      (load (Proc.mk' j₁ io maxCycles) file).map (fun p => { p with instr := j.instr, instrEnum := j.instrEnum }) := by
    intro j
    unfold load
    simp only [Proc.mk']
    cases loadParts Mem.zero file with
    | none => rfl
    | some r => rfl
  rw [key j₂, h₁] at h₂
  simp only [Option.map] at h₂
  cases h₂
  exact (run_junk fuel p₁ j₂.instr j₂.instrEnum).symm

/-- **Zero memory.**  Memory not covered by the loaded image reads as zero. -/
theorem C12_zero (j : Junk) (io : Isa.IOSt) (maxCycles : Nat) (i : Nat) :
    (Proc.mk' j io maxCycles).memory.read i = 0 := Mem.read_zero i

/-- The pinned constructor does not have this property: its memory and exit code are whatever
    the storage held (defect D20, repaired by a `fix:` commit). -/
theorem C12_pinned_depends_on_junk (j : Junk) (io : Isa.IOSt) :
    (Proc.mkPinned j io).memory = j.mem ∧ (Proc.mkPinned j io).exitCode = j.exitCode := ⟨rfl, rfl⟩

/-- **Cycle limit, termination.**  With `--max-cycles m` (m > 0), `run()` returns after at most
    `m + 1 - cycles` loop iterations. -/
theorem C12_maxcycles_terminates (fuel : Nat) (p : Proc) (hm : 0 < p.maxCycles)
    (hf : p.maxCycles + 1 - p.cycles ≤ fuel) (q : Proc) : run fuel p ≠ .outOfFuel q :=
  run_maxCycles_terminates fuel p hm hf q

/-- **Cycle limit, defined status.**  The value returned is the exit value stored by an executed
    EXIT call, or else the constructor's `exitCode` (0): never an indeterminate value. -/
theorem C12_maxcycles_status (fuel : Nat) (j : Junk) (io : Isa.IOSt) (m : Nat) (file : List Byte)
    (p : Proc) (hl : load (Proc.mk' j io m) file = some p) (c : Word) (q : Proc)
    (h : run fuel p = .returned c q) : c = q.exitCode ∧ (q.running = true → c = 0) := by
  obtain ⟨h1, h2⟩ := run_returns_defined fuel p c q h
  refine ⟨h1, fun hq => ?_⟩
  rw [h2 hq]
  have : p.exitCode = (Proc.mk' j io m).exitCode := by
    unfold load at hl
    split at hl
    · cases hl; rfl
    · cases hl
  rw [this]; rfl

/-- **Tracing is an observer.**  Enabling `-t` (and whatever trace text has accumulated) changes
    neither the exit value, nor the final state, nor the I/O history (bytes written, input
    consumed, sequence of system calls). -/
theorem C12_trace (fuel : Nat) (p : Proc) (l : List TraceLine) :
    obsSim (run fuel (setTrace p true l)) = obsSim (run fuel (setTrace p false [])) := by
  rw [run_strip fuel (setTrace p true l)]
  rfl

/-- Non-vacuity of `C12_junk`: two different junk values exist, and `load` succeeds on a
    4-byte file (empty image). -/
example : ∃ p, load (Proc.mk' ⟨1, Mem.zero, 2, 3⟩ (Isa.IOSt.init []) 0) [0, 0, 0, 0] = some p := by
  refine ⟨{ Proc.mk' ⟨1, Mem.zero, 2, 3⟩ (Isa.IOSt.init []) 0 with
              memory := Mem.zero.loadWords (wordsOfBytes []) }, ?_⟩
  simp [load, loadParts, le32, wordOfBytes, Proc.mk']

/-- **The cycle limit only cuts.**  A limit `m` that the run does not reach within `fuel`
    iterations changes nothing: the limited `run()` performs exactly the iterations of the
    unlimited one and the two results differ in the `maxCycles` member only
    (`Lemmas/SimMaxCycles.lean`, induction over the run with `setMax` commuting with every
    instruction, the system calls and the trace hook). -/
theorem C12_limit_only_cuts (fuel : Nat) (p : Proc) (m : Nat) (h0 : p.maxCycles = 0)
    (hc : p.cycles + fuel ≤ m) :
    run fuel (setMax p m) = (run fuel p).setMax m ∧
    obsSim (run fuel (setMax p m)) = obsSim (run fuel p) := by
  have h := run_setMax fuel p m h0 hc
  refine ⟨h, ?_⟩
  rw [h]
  cases run fuel p with
  | returned c q => rfl
  | threw s q => rfl
  | faulted f q => cases f; rfl
  | outOfFuel q => rfl

/-- ... hence `C02_run` carries over to limited runs: below the limit, hexsim with
    `--max-cycles m` and the ISA specification produce the same observation. -/
theorem C12_limited_run_is_isa (fuel : Nat) (p : Proc) (m k : Nat) (hr : p.running = true)
    (ht : p.truncateInputs = true) (h0 : p.maxCycles = 0) (hc : p.cycles + fuel ≤ m) :
    obsSim (run fuel (setMax p m)) = obsIsa (Isa.run fuel (abs p) p.io k) := by
  rw [(C12_limit_only_cuts fuel p m h0 hc).2]
  exact run_refines fuel p k hr ht h0

/-- Non-vacuity: the constructor with limit `m` is the unlimited constructor with `setMax`, and
    satisfies the hypotheses for every `fuel ≤ m`. -/
example (j : Junk) (io : Isa.IOSt) (m : Nat) :
    Proc.mk' j io m = setMax (Proc.mk' j io 0) m ∧ (Proc.mk' j io 0).maxCycles = 0 ∧
    (Proc.mk' j io 0).cycles + m ≤ m := ⟨rfl, rfl, by simp [Proc.mk']⟩

/-- **Cycle limit, bound.**  With `--max-cycles m` (m > 0) the cycle counter of the processor the
    run ends with - however it ends: return, exception, fault - is at most `m + 1`: `run()` never
    executes more than one instruction past the limit (the loop tests `cycles <= maxCycles`). -/
theorem C12_maxcycles_bound (fuel : Nat) (j : Junk) (io : Isa.IOSt) (m : Nat) (hm : 0 < m)
    (file : List Byte) (p : Proc) (hl : load (Proc.mk' j io m) file = some p) :
    (run fuel p).proc.cycles ≤ m + 1 := by
  have hp : p.maxCycles = m ∧ p.cycles = 0 := by
    unfold load at hl
    split at hl
    · cases hl; exact ⟨rfl, rfl⟩
    · cases hl
  have := (run_cycles_bound fuel p (by rw [hp.1]; exact hm)).1
  rw [hp.1, hp.2] at this
  omega

end Hex.Properties.C12
