import HexVerif.Lemmas.TbIsa
import HexVerif.Lemmas.TbLoadFile
import HexVerif.Properties.C13
/-
  C06 — a binary behaves identically on the RTL testbench and on the simulator.

  Left side: `Tb.steps … (Tb.start r₀ io)` — hextb.cpp's loop over the RTL semantics generated
  from verilog/*.sv, from ANY power-on state `r₀` whose memory holds the image (C13).
  Right side: `Sim.run n p` — hexsim.hpp's `run()` (C02) on the `Processor` state `p` after
  construction and `load()`.
  Both are related to the ISA: hextb through C03 (`run_refines`), hexsim through C02
  (`run_refines`), and the two ISA runs — one on the RTL's memory with power-on junk outside the
  image, one on hexsim's zeroed memory — through the non-interference lemma `Isa.run_agree`.
-/
namespace Hex.Properties.C06
open Hex Hex.Rtl Hex.Isa Hex.Tb

/-- **C06.**  Let `p` be hexsim's processor after construction and `load()` (running, inputs
    truncated, no cycle limit, registers zero) and `r₀` the Verilated design after hextb's
    `load()` in any power-on state, the two memories agreeing on the `k` image words.  If the
    program's ISA run of `n` instructions is defined and in range, and reads only image words and
    words it has written, then after the reset window and `n` clock periods hextb has produced
    exactly the I/O history (bytes written to every stream in order, bytes consumed from every
    input) and the exit value that hexsim's `run()` produces in `n` loop iterations. -/
theorem C06 (p : Sim.Proc) (r₀ : RtlSt) (io : IOSt) (n k : Nat) (out : Outcome)
    (hrun_p : p.running = true) (htr : p.truncateInputs = true) (hmc : p.maxCycles = 0) (hio : p.io = io)
    (hregs : p.pc = 0#32 ∧ p.areg = 0#32 ∧ p.breg = 0#32 ∧ p.oreg = 0#32)
    (himg : ∀ i, i < k → i < memWords → p.memory.read i = r₀.mem (BitVec.ofNat 19 i))
    (hrun : isaRun n { pc := 0#32, a := 0#32, b := 0#32, o := 0#32, mem := absMem r₀.mem } io = some out)
    (hro : ReadsOnly (fun i => i < k ∧ i < memWords) n
             { pc := 0#32, a := 0#32, b := 0#32, o := 0#32, mem := p.memory } io) :
    obs (steps (10 + 2 * n) (start r₀ io)) = obsSimPair (Sim.obsSim (Sim.run n p)) := by
  -- hextb = ISA on the RTL memory
  rw [Hex.Properties.C13.C13_run r₀ io n out hrun]
  rw [← isaRun_run n _ io out 0 hrun (isaRun_not_undef n _ io out hrun)]
  -- hexsim = ISA on hexsim's memory
  have hsim := Sim.run_refines n p 0 hrun_p htr hmc
  rw [hsim, obsIsa_pair, hio]
  -- the two ISA runs agree
  obtain ⟨h1, h2, h3, h4⟩ := hregs
  have habs : Sim.abs p = { pc := 0#32, a := 0#32, b := 0#32, o := 0#32, mem := p.memory } := by
    simp [Sim.abs, h1, h2, h3, h4]
  rw [habs]
  have hag : AgreeOn (fun i => i < k ∧ i < memWords) p.memory (absMem r₀.mem) := by
    intro i hi
    rw [absMem_read _ _ hi.2]
    exact himg i hi.1 hi.2
  have := run_agree n (fun i => i < k ∧ i < memWords)
    { pc := 0#32, a := 0#32, b := 0#32, o := 0#32, mem := p.memory }
    { pc := 0#32, a := 0#32, b := 0#32, o := 0#32, mem := absMem r₀.mem } io 0
    ⟨rfl, rfl, rfl, rfl⟩ hag hro
  exact (run_agree_obs _ _ this).symm

/-- The hypotheses about `p` are those of the simulator's constructor followed by `load()`:
    registers zero, running, truncating, and the image words in a zeroed memory. -/
theorem C06_sim_start (j : Sim.Junk) (io : IOSt) (file : List Byte) (p : Sim.Proc)
    (h : Sim.load (Sim.Proc.mk' j io 0) file = some p) :
    p.running = true ∧ p.truncateInputs = true ∧ p.maxCycles = 0 ∧ p.io = io ∧
    (p.pc = 0#32 ∧ p.areg = 0#32 ∧ p.breg = 0#32 ∧ p.oreg = 0#32) := by
  unfold Sim.load at h
  split at h
  · cases h; exact ⟨rfl, rfl, rfl, rfl, rfl, rfl, rfl, rfl⟩
  · cases h

/-- hexsim's memory after `load()`: the image words, zero elsewhere (C12_zero); hextb's after its
    `load()`: the same words at the same addresses, power-on values elsewhere. -/
theorem C06_images_agree (ws : List Word) (h : ws.length ≤ memWords) (m : BitVec 19 → Word) (i : Nat)
    (hi : i < ws.length) :
    (Mem.zero.loadWords ws).read i = loadMem m ws (BitVec.ofNat 19 i) := by
  rw [loadWords_read _ _ h, if_pos hi]
  unfold loadMem
  have : (BitVec.ofNat 19 i).toNat = i := by
    simp only [BitVec.toNat_ofNat]
    unfold memWords at h
    omega
  rw [this]
  cases hw : ws[i]? with
  | none => simp [List.getElem?_eq_none_iff] at hw; omega
  | some w => rfl

/-- **C06 for the files the assembler writes.**  Both tools are given the SAME file
    `Asm.fileBytes img` (what `hexasm` / `xcmp` emit: length word, image, debug tables): hexsim's
    `load()` (model `Sim.load`, any indeterminate constructor members `j`) and hextb's `load()`
    (everything after the length word copied over an arbitrary power-on memory `m`).  The
    hypotheses of `C06` about the two start states are discharged by the loader round trip
    (`Sim.loadParts_fileBytes`) and `Tb.loaders_agree`; what remains are the property's own side
    conditions on the program's run (defined, in range, reads only image words or words it wrote). -/
theorem C06_on_file (img : Asm.Image) (j : Sim.Junk) (io : IOSt) (r₀ : RtlSt) (m : BitVec 19 → Word) (n : Nat) (out : Outcome)
    (hsz : img.sizeBytes = img.bytes.length) (h4 : img.bytes.length % 4 = 0) (hfit : img.bytes.length ≤ 4 * memWords)
    (hd : img.debug.length < 2 ^ 31) (hnul : ∀ e ∈ img.debug, (0 : Byte) ∉ Sim.nameBytes e.1)
    (hmem : r₀.mem = loadMem m (tbWords (Asm.fileBytes img)))
    (hrun : isaRun n { pc := 0#32, a := 0#32, b := 0#32, o := 0#32, mem := absMem r₀.mem } io = some out)
    (hro : ReadsOnly (fun i => i < img.bytes.length / 4 ∧ i < memWords) n
             { pc := 0#32, a := 0#32, b := 0#32, o := 0#32, mem := Mem.zero.loadWords (wordsOfBytes img.bytes) } io) :
    ∃ p, Sim.load (Sim.Proc.mk' j io 0) (Asm.fileBytes img) = some p ∧
      obs (steps (10 + 2 * n) (start r₀ io)) = obsSimPair (Sim.obsSim (Sim.run n p)) := by
  have hl := Sim.loadParts_fileBytes Mem.zero img hsz h4 hfit hd hnul
  have hload : Sim.load (Sim.Proc.mk' j io 0) (Asm.fileBytes img) =
      some { Sim.Proc.mk' j io 0 with memory := Mem.zero.loadWords (wordsOfBytes img.bytes),
                                       debugInfo := [] ++ Sim.loadedSymbols img.debug } := by
    unfold Sim.load
    show (match Sim.loadParts Mem.zero (Asm.fileBytes img) with
          | some (mm, tbl) => some { Sim.Proc.mk' j io 0 with memory := mm, debugInfo := (Sim.Proc.mk' j io 0).debugInfo ++ tbl }
          | none => none) = _
    rw [hl]
    rfl
  refine ⟨_, hload, ?_⟩
  obtain ⟨s1, s2, s3, s4, s5⟩ := C06_sim_start j io _ _ hload
  refine C06 _ r₀ io n (img.bytes.length / 4) out s1 s2 s3 s4 s5 ?_ hrun hro
  intro i hi _
  rw [hmem]
  exact loaders_agree img h4 hfit m i hi


end Hex.Properties.C06
