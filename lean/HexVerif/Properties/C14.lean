import HexVerif.Lemmas.Cli
import HexVerif.Cli.Pinned
/-
  C14 — tool exit status and output files reflect what happened.

  Models: `Cli/Model.lean` (the four `main`s after the repairs, argument loops written out as in
  the C++), `Cli/Pinned.lean` (the pinned `main`s).  The work between "source bytes" and
  "image / diagnostic" is a parameter of the models (`AsmCore`, `XcmpCore`, `SimCore`), so every
  theorem holds whatever the assembler, compiler and simulator proper do.

  Every theorem quantifies over the *whole* argument list `args : List String`.  "Well-formed
  command line" is declarative: `HexasmLine args c` etc. say that `args` is the concatenation of
  the renderings of a list of items (flags, `-o v` / `--output v` pairs, files) in ANY order and
  spelling with exactly one file, and `c` is its reading (output name = value of the last
  `-o`/`--output`, else `a.out`).  The link between that grammar and the C++ loops
  (`hexasmLoop_render` / `hexasmLoop_done`, …) is proved by induction over the loop in
  `Lemmas/Cli.lean`.

  Tie to /repo: `./check C14` runs the built executables and `clidriver` (these definitions,
  compiled) on the same command lines and file systems and diffs status, stderr, stdout kind,
  directory contents.
-/
namespace Hex.Properties.C14
open Hex Hex.Cli

/-! ## hexasm -/

/-- **C14 for hexasm, all argument lists.**
    (1) exit status 0 exactly when `args` is a well-formed command line whose source is accepted
        by the selected stage (and, in binary mode, the output can be created);
    (2) then, in binary mode, the file system afterwards is the old one with exactly the image in
        the file named by the last `-o`/`--output` (default `a.out`), and nothing on stderr;
    (3) listing modes never touch the file system;
    (4) otherwise: non-zero status, file system untouched (no new, no truncated file), and a
        diagnostic (stderr, or the usage text for `-h` / missing file). -/
theorem C14_hexasm (core : AsmCore) (args : List String) (fs : Fs) :
    let r := hexasmMain core args fs
    (r.status = 0 ↔ ∃ c, HexasmLine args c ∧ AsmSucceeds core fs c) ∧
    (∀ c img, HexasmLine args c → AsmAccepted core fs c img →
        r.status = 0 ∧ r.fs = fs.write c.out img ∧ r.stderr = false) ∧
    (∀ c, HexasmLine args c → (c.tokensOnly = true ∨ c.instrsOnly = true) → r.fs = fs) ∧
    ((¬ ∃ c, HexasmLine args c ∧ AsmSucceeds core fs c) →
        r.status ≠ 0 ∧ r.fs = fs ∧ (r.stderr = true ∨ r.stdout = .usage)) := by
  intro r
  by_cases hl : ∃ c, HexasmLine args c
  · obtain ⟨c, hc⟩ := hl
    have hr : r = hexasmBody core c.opts fs := hexasmMain_of_line core fs hc
    refine ⟨?_, ?_, ?_, ?_⟩
    · rw [hr, hexasmBody_status]
      exact ⟨fun h => ⟨c, hc, h⟩, fun ⟨c', hc', h⟩ => by rwa [hc.unique hc']⟩
    · intro c' img hc' ha
      rw [hr, hc.unique hc', hexasmBody_accepted core fs c' img ha]
      exact ⟨rfl, rfl, rfl⟩
    · intro c' hc' hm
      rw [hr, hc.unique hc']
      exact hexasmBody_listing core fs c' hm
    · intro hn
      have : ¬ AsmSucceeds core fs c := fun h => hn ⟨c, hc, h⟩
      obtain ⟨h1, h2, h3⟩ := hexasmBody_rejected core fs c this
      rw [hr]
      exact ⟨by rw [h1]; decide, h2, .inl h3⟩
  · obtain ⟨h1, h2, h3⟩ := hexasmMain_not_line core fs hl
    refine ⟨?_, ?_, ?_, ?_⟩
    · constructor
      · intro h; rw [h1] at h; cases h
      · rintro ⟨c, hc, _⟩; exact absurd ⟨c, hc⟩ hl
    · intro c _ hc; exact absurd ⟨c, hc⟩ hl
    · intro c hc; exact absurd ⟨c, hc⟩ hl
    · intro _; exact ⟨by rw [h1]; decide, h2, h3⟩

/-- A rejected *source* (as opposed to a rejected command line) is always reported on stderr. -/
theorem C14_hexasm_diagnostic (core : AsmCore) (args : List String) (fs : Fs) (c : AsmCmd)
    (hc : HexasmLine args c) (h : ¬ AsmSucceeds core fs c) :
    (hexasmMain core args fs).stderr = true := by
  rw [hexasmMain_of_line core fs hc]
  exact (hexasmBody_rejected core fs c h).2.2

/-- **Argument order.** Two command lines made of the same items in different orders behave
    identically, provided the same `-o`/`--output` occurrence is the last one. -/
theorem C14_hexasm_order (core : AsmCore) (fs : Fs) (a b : List Item)
    (hva : ∀ i ∈ a, i.Valid hexasmSyn) (hvb : ∀ i ∈ b, i.Valid hexasmSyn) (hp : a.Perm b)
    (ho : lastSome (optVal asmOutNames) a = lastSome (optVal asmOutNames) b) :
    hexasmMain core (render a) fs = hexasmMain core (render b) fs :=
  hexasmMain_perm core fs hva hvb hp ho

/-! ## xcmp -/

/-- **C14 for xcmp, all argument lists** (same four clauses as `C14_hexasm`). -/
theorem C14_xcmp (xc : XcmpCore) (args : List String) (fs : Fs) :
    let r := xcmpMain xc args fs
    (r.status = 0 ↔ ∃ c, XcmpLine args c ∧ XcmpSucceeds xc fs c) ∧
    (∀ c img, XcmpLine args c → XcmpAccepted xc fs c img →
        r.status = 0 ∧ r.fs = fs.write c.out img ∧ r.stderr = false) ∧
    (∀ c, XcmpLine args c → c.action ≠ .binary → r.fs = fs) ∧
    ((¬ ∃ c, XcmpLine args c ∧ XcmpSucceeds xc fs c) →
        r.status ≠ 0 ∧ r.fs = fs ∧ (r.stderr = true ∨ r.stdout = .usage)) := by
  intro r
  by_cases hl : ∃ c, XcmpLine args c
  · obtain ⟨c, hc⟩ := hl
    have hr : r = xcmpBody xc c.opts fs := xcmpMain_of_line xc fs hc
    refine ⟨?_, ?_, ?_, ?_⟩
    · rw [hr, xcmpBody_status]
      exact ⟨fun h => ⟨c, hc, h⟩, fun ⟨c', hc', h⟩ => by rwa [hc.unique hc']⟩
    · intro c' img hc' ha
      rw [hr, hc.unique hc', xcmpBody_accepted xc fs c' img ha]
      exact ⟨rfl, rfl, rfl⟩
    · intro c' hc' hm
      rw [hr, hc.unique hc']
      exact xcmpBody_listing xc fs c' hm
    · intro hn
      have : ¬ XcmpSucceeds xc fs c := fun h => hn ⟨c, hc, h⟩
      obtain ⟨h1, h2, h3⟩ := xcmpBody_rejected xc fs c this
      rw [hr]
      exact ⟨by rw [h1]; decide, h2, .inl h3⟩
  · obtain ⟨h1, h2, h3⟩ := xcmpMain_not_line xc fs hl
    refine ⟨?_, ?_, ?_, ?_⟩
    · constructor
      · intro h; rw [h1] at h; cases h
      · rintro ⟨c, hc, _⟩; exact absurd ⟨c, hc⟩ hl
    · intro c _ hc; exact absurd ⟨c, hc⟩ hl
    · intro c hc; exact absurd ⟨c, hc⟩ hl
    · intro _; exact ⟨by rw [h1]; decide, h2, h3⟩

theorem C14_xcmp_diagnostic (xc : XcmpCore) (args : List String) (fs : Fs) (c : XcmpCmd)
    (hc : XcmpLine args c) (h : ¬ XcmpSucceeds xc fs c) :
    (xcmpMain xc args fs).stderr = true := by
  rw [xcmpMain_of_line xc fs hc]
  exact (xcmpBody_rejected xc fs c h).2.2

theorem C14_xcmp_order (xc : XcmpCore) (fs : Fs) (a b : List Item)
    (hva : ∀ i ∈ a, i.Valid xcmpSyn) (hvb : ∀ i ∈ b, i.Valid xcmpSyn) (hp : a.Perm b)
    (ho : lastSome (optVal asmOutNames) a = lastSome (optVal asmOutNames) b)
    (hact : lastSome flagAction a = lastSome flagAction b) :
    xcmpMain xc (render a) fs = xcmpMain xc (render b) fs :=
  xcmpMain_perm xc fs hva hvb hp ho hact

/-! ## xrun = xcmp followed by hexsim -/

/-- **xrun behaves like `xcmp f -o a.bin && hexsim <the other arguments> a.bin`**: identical exit
    status, stdout kind, stderr and file system, for every order and spelling of xrun's options. -/
theorem C14_xrun (xc : XcmpCore) (sim : SimCore) (fs : Fs) (items : List Item)
    (hv : ∀ i ∈ items, i.Valid xrunSyn) (f : String) (hf : files items = [f])
    (hc : cyclesParse items = true) :
    xrunMain xc sim (render items) fs =
      (xcmpMain xc [f, "-o", "a.bin"] fs).andThen
        (hexsimMain sim (render (nonFiles items) ++ ["a.bin"])) :=
  xrunMain_eq_seq xc sim fs items hv f hf hc

/-- The same when a `--max-cycles` value is not a number: both fail with status 1, an error on
    stderr and nothing on stdout (xrun, in addition, has not written `a.bin`). -/
theorem C14_xrun_badcycles (xc : XcmpCore) (sim : SimCore) (fs : Fs) (items : List Item)
    (hv : ∀ i ∈ items, i.Valid xrunSyn) (f : String) (hf : files items = [f])
    (hc : cyclesParse items = false) :
    let r := xrunMain xc sim (render items) fs
    let p := (xcmpMain xc [f, "-o", "a.bin"] fs).andThen
        (hexsimMain sim (render (nonFiles items) ++ ["a.bin"]))
    r.status = 1 ∧ p.status = 1 ∧ r.stderr = true ∧ p.stderr = true ∧
    r.stdout = .none ∧ p.stdout = .none ∧ r.fs = fs :=
  xrunMain_eq_seq_badcycles xc sim fs items hv f hf hc

/-- Every other argument list of xrun (help, unknown option, no file, two files, missing or
    malformed `--max-cycles` value): status 1, nothing touched, something printed. -/
theorem C14_xrun_reject (xc : XcmpCore) (sim : SimCore) (args : List String) (fs : Fs)
    (h : ¬ ∃ c, XrunLine args c) :
    let r := xrunMain xc sim args fs
    r.status ≠ 0 ∧ r.fs = fs ∧ (r.stderr = true ∨ r.stdout = .usage) := by
  obtain ⟨h1, h2, h3⟩ := xrunMain_not_line xc sim fs h
  exact ⟨by rw [h1]; decide, h2, h3⟩

/-- xrun on a source the compiler rejects (or that cannot be read, or when `a.bin` cannot be
    created): status 1, diagnostic on stderr, file system untouched. -/
theorem C14_xrun_compile_error (xc : XcmpCore) (sim : SimCore) (args : List String) (fs : Fs)
    (c : RunCmd) (hc : XrunLine args c) (h : ¬ ∃ img, XrunCompiles xc fs c.file img) :
    xrunMain xc sim args fs = ⟨1, fs, true, .none⟩ := by
  rw [xrunMain_of_line xc sim fs hc]
  exact xrunBody_failed xc sim fs c h

theorem C14_xrun_order (xc : XcmpCore) (sim : SimCore) (fs : Fs) (a b : List Item)
    (hva : ∀ i ∈ a, i.Valid xrunSyn) (hvb : ∀ i ∈ b, i.Valid xrunSyn) (hp : a.Perm b)
    (hc : lastSome cyclesVal a = lastSome cyclesVal b) :
    xrunMain xc sim (render a) fs = xrunMain xc sim (render b) fs :=
  xrunMain_perm xc sim fs hva hvb hp hc

/-! ## Exit status of hexsim and xrun = the program's exit value -/

/-- **hexsim's status is the program's exit value modulo 256**, for every well-formed command
    line (any order/spelling of `-t`, `--trace`, `--max-cycles N`, the file); nothing is written
    to stderr and the file system is untouched. -/
theorem C14_status_hexsim (sim : SimCore) (args : List String) (fs : Fs) (c : SimCmd)
    (hc : HexsimLine args c) (hd : c.dump = false) (img : Bytes) (hr : fs.read c.file = some img)
    (v : Word) (hv : sim.run c.trace c.maxCycles img = .exited v) :
    hexsimMain sim args fs = ⟨v.toNat % 256, fs, false, .program⟩ := by
  rw [hexsimMain_of_line sim fs hc, hexsimBody_run sim fs c hd]
  exact simulate_exited sim fs _ _ _ img v hr hv

/-- If there is no exit value (binary unreadable, or the run threw) hexsim reports it: status 1
    and a message on stderr. -/
theorem C14_status_hexsim_error (sim : SimCore) (args : List String) (fs : Fs) (c : SimCmd)
    (hc : HexsimLine args c) (hd : c.dump = false)
    (h : ∀ img v, fs.read c.file = some img → sim.run c.trace c.maxCycles img ≠ .exited v) :
    (hexsimMain sim args fs).status = 1 ∧ (hexsimMain sim args fs).stderr = true ∧
    (hexsimMain sim args fs).fs = fs := by
  rw [hexsimMain_of_line sim fs hc, hexsimBody_run sim fs c hd]
  exact ⟨(simulate_failed sim fs _ _ _ h).1, (simulate_failed sim fs _ _ _ h).2, simulate_fs sim fs _ _ _⟩

theorem C14_hexsim_reject (sim : SimCore) (args : List String) (fs : Fs)
    (h : ¬ ∃ c, HexsimLine args c) :
    let r := hexsimMain sim args fs
    r.status ≠ 0 ∧ r.fs = fs ∧ (r.stderr = true ∨ r.stdout = .usage) := by
  obtain ⟨h1, h2, h3⟩ := hexsimMain_not_line sim fs h
  exact ⟨by rw [h1]; decide, h2, h3⟩

theorem C14_hexsim_order (sim : SimCore) (fs : Fs) (a b : List Item)
    (hva : ∀ i ∈ a, i.Valid hexsimSyn) (hvb : ∀ i ∈ b, i.Valid hexsimSyn) (hp : a.Perm b)
    (hc : lastSome cyclesVal a = lastSome cyclesVal b) :
    hexsimMain sim (render a) fs = hexsimMain sim (render b) fs :=
  hexsimMain_perm sim fs hva hvb hp hc

/-- **xrun's status is the compiled program's exit value modulo 256**, and the only file it
    leaves behind is `a.bin` holding the image. -/
theorem C14_status_xrun (xc : XcmpCore) (sim : SimCore) (args : List String) (fs : Fs) (c : RunCmd)
    (hc : XrunLine args c) (img : Bytes) (hcomp : XrunCompiles xc fs c.file img)
    (v : Word) (hv : sim.run c.trace c.maxCycles img = .exited v) :
    xrunMain xc sim args fs = ⟨v.toNat % 256, fs.write "a.bin" img, false, .program⟩ := by
  rw [xrunMain_of_line xc sim fs hc, xrunBody_compiled xc sim fs c img hcomp]
  exact simulate_exited sim _ _ _ _ img v (by simp [Fs.write]) hv

/-! ## Non-vacuity: concrete instances of every hypothesis above -/

section Examples

/-- A file system holding one source file; every name can be created. -/
def fs1 (name : String) (b : Bytes) : Fs := ⟨fun n => if n = name then some b else none, fun _ => true⟩
/-- An assembler core that accepts everything with image `[1,2,3,4]`. -/
def coreOk : AsmCore := ⟨fun _ => .ok (), fun _ => .ok [1, 2, 3, 4]⟩
/-- An assembler core that rejects everything with a located error. -/
def coreRej : AsmCore := ⟨fun _ => .ok (), fun _ => .error true⟩
def xcOk : XcmpCore := ⟨fun _ _ _ => .ok [9, 9]⟩
def xcRej : XcmpCore := ⟨fun _ _ _ => .error true⟩
/-- A simulator whose every program exits with -1. -/
def simM1 : SimCore := ⟨fun _ _ _ => .exited 0xFFFFFFFF⟩

/-- `hexasm --output x.bin prog.S -o y.bin` is a well-formed line reading "output y.bin". -/
example : HexasmLine ["--output", "x.bin", "prog.S", "-o", "y.bin"] ⟨false, false, "prog.S", "y.bin"⟩ :=
  ⟨[.opt "--output" "x.bin", .file "prog.S", .opt "-o" "y.bin"], "prog.S", by decide, rfl, rfl, by decide⟩

example : AsmAccepted coreOk (fs1 "prog.S" []) ⟨false, false, "prog.S", "y.bin"⟩ [1, 2, 3, 4] :=
  ⟨rfl, rfl, [], rfl, rfl, rfl⟩

/-- … and the model indeed exits 0 with the image in `y.bin` and nothing in `x.bin`/`a.out`. -/
example :
    let r := hexasmMain coreOk ["--output", "x.bin", "prog.S", "-o", "y.bin"] (fs1 "prog.S" [])
    r.status = 0 ∧ r.fs.read "y.bin" = some [1, 2, 3, 4] ∧ r.fs.read "x.bin" = none ∧
    r.fs.read "a.out" = none := by decide

/-- The rejecting side of clause (4) is inhabited too: a rejected source … -/
example : ¬ ∃ c, HexasmLine ["prog.S"] c ∧ AsmSucceeds coreRej (fs1 "prog.S" []) c := by
  rintro ⟨c, hc, src, _, h⟩
  have hl : HexasmLine ["prog.S"] ⟨false, false, "prog.S", "a.out"⟩ :=
    ⟨[.file "prog.S"], "prog.S", by decide, rfl, rfl, by decide⟩
  rw [hc.unique hl] at h
  simp [coreRej] at h

/-- … and a malformed command line (`-o` without a value). -/
example : ¬ ∃ c, HexasmLine ["prog.S", "-o"] c := by
  rintro ⟨c, hc⟩
  have := hexasmLoop_of_line hc
  simp [hexasmLoop] at this

example : (hexasmMain coreRej ["prog.S"] (fs1 "prog.S" [])).status = 1 := by decide

example : XcmpLine ["-o", "b.bin", "p.x"] ⟨.binary, false, "p.x", "b.bin"⟩ :=
  ⟨[.opt "-o" "b.bin", .file "p.x"], "p.x", by decide, rfl, rfl, by decide⟩

example :
    let r := xcmpMain xcOk ["-o", "b.bin", "p.x"] (fs1 "p.x" [])
    r.status = 0 ∧ r.fs.read "b.bin" = some [9, 9] ∧ r.fs.read "a.out" = none := by decide

example : XrunLine ["--max-cycles", "1000", "p.x", "-t"] ⟨true, 1000, "p.x"⟩ :=
  ⟨[.opt "--max-cycles" "1000", .file "p.x", .flag "-t"], "p.x", by decide, rfl, rfl, by decide, by decide⟩

example : XrunCompiles xcOk (fs1 "p.x" []) "p.x" [9, 9] := ⟨[], rfl, rfl, rfl⟩

/-- exit value -1 is seen as 255. -/
example : (xrunMain xcOk simM1 ["--max-cycles", "1000", "p.x", "-t"] (fs1 "p.x" [])).status = 255 := by
  decide

example : HexsimLine ["a.out", "--trace"] ⟨false, true, 0, "a.out"⟩ :=
  ⟨[.file "a.out", .flag "--trace"], "a.out", by decide, rfl, rfl, by decide, by decide⟩

example : (hexsimMain simM1 ["a.out", "--trace"] (fs1 "a.out" [])).status = 255 := by decide

/-- Two orders of the same items, same last `-o`: the hypothesis of `C14_hexasm_order`. -/
example : [Item.flag "--instrs", .file "p.S", .opt "-o" "x"].Perm [.file "p.S", .opt "-o" "x", .flag "--instrs"] := by
  decide

end Examples

/-! ## The pinned mains do NOT have the property (defects D6, D18, D19 and the unchecked opens):
       the C14 clauses instantiated with the pinned models are refuted on concrete witnesses. -/

/-- D6: pinned hexasm exits 0 on a rejected source (the `catch (hexutil::Error)` arm falls
    through to `return 0`), so clause (1) is false of it. -/
theorem C14_pinned_hexasm_status_false :
    ¬ ∀ (core : AsmCore) (args : List String) (fs : Fs),
      ((Pinned.hexasmMain core args fs).status = 0 ↔ ∃ c, HexasmLine args c ∧ AsmSucceeds core fs c) := by
  intro h
  have h0 : (Pinned.hexasmMain coreRej ["prog.S"] (fs1 "prog.S" [])).status = 0 := by decide
  obtain ⟨c, hc, src, _, hs⟩ := (h coreRej ["prog.S"] (fs1 "prog.S" [])).mp h0
  have hl : HexasmLine ["prog.S"] ⟨false, false, "prog.S", "a.out"⟩ :=
    ⟨[.file "prog.S"], "prog.S", by decide, rfl, rfl, by decide⟩
  rw [hc.unique hl] at hs
  simp [coreRej] at hs

/-- D18: pinned xcmp ignores `-o`: with `-o b.bin` the image lands in `a.out`, `b.bin` stays absent. -/
theorem C14_pinned_xcmp_output_false :
    let r := Pinned.xcmpMain xcOk ["p.x", "-o", "b.bin"] (fs1 "p.x" [])
    r.status = 0 ∧ r.fs.read "b.bin" = none ∧ r.fs.read "a.out" = some [9, 9] := by decide

/-- D18, second face: with a trailing `-o` the *file name itself* is compiled as source text
    (`inputIsFilename` receives the null pointer): no file is read; a compiler that accepts that
    text makes xcmp exit 0 although the named source does not exist. -/
theorem C14_pinned_xcmp_trailing_o :
    (Pinned.xcmpMain xcOk ["nosuch.x", "-o"] (fs1 "p.x" [])).status = 0 := by decide

/-- D19: pinned xrun exits 0 whatever the program's exit value, and also when compilation failed. -/
theorem C14_pinned_xrun_status_false :
    (Pinned.xrunMain xcOk simM1 [] ["p.x"] (fs1 "p.x" [])).status = 0 ∧
    (Pinned.xrunMain xcRej simM1 [] ["p.x"] (fs1 "p.x" [])).status = 0 := by decide

/-- Unchecked open in `emitBin`: pinned hexasm exits 0 without any output when the output file
    cannot be created. -/
theorem C14_pinned_hexasm_unwritable :
    let fs : Fs := ⟨fun n => if n = "p.S" then some [] else none, fun n => n != "nodir/x.bin"⟩
    let r := Pinned.hexasmMain coreOk ["p.S", "-o", "nodir/x.bin"] fs
    r.status = 0 ∧ r.stderr = false ∧ r.fs.read "nodir/x.bin" = none := by decide

/-- Unchecked open in `Processor::load`: pinned hexsim "runs" a binary that does not exist
    (whatever the indeterminate image makes it do) instead of reporting the missing file. -/
theorem C14_pinned_hexsim_missing_file (junk : Bytes) :
    (Pinned.hexsimMain simM1 junk ["nosuch.bin"] (fs1 "a.out" [])).stderr = false := by
  rfl

end Hex.Properties.C14
