import HexVerif.Rtl.Equiv
/-
  C16 — verilog/processor.v (sv2v output) and its copy synth/processor.v are behaviourally
  identical to verilog/processor.sv; the two copies are the same design.

  All three models are GENERATED on every run (translator/sv2lean.py → Rtl/Gen/{Sv,V,SynthV}.lean)
  from the three files; `SvP`/`VP`/`SynthVP` (Rtl/Equiv.lean) only repackage their ports and
  registers into common structures.  `XBits` are the eight `1'bx` constants of the sv2v output,
  universally quantified (two-state reading: the equality holds whatever value a simulator or a
  synthesis tool picks for each x).  `i_rst` is an ordinary quantified input, so both the reset
  arm and the clocked arm of the `always @(posedge i_clk or posedge i_rst)` block are covered.
-/
namespace Hex.Properties.C16
open Hex Hex.Rtl

/-- **C16.**  For all inputs (`i_rst`, `i_clk`, fetched byte, read data), all register values and
    all x-bits, processor.v drives the same eight outputs (fetch valid/address, data
    valid/we/address/data, syscall valid/number) and loads the same four registers at an event
    as processor.sv. -/
theorem C16 (x : XBits) (i : ProcIn) (r : ProcRegs) :
    VP.out x i r = SvP.out i r ∧ VP.next x i r = SvP.next i r :=
  ⟨v_out_eq x i r, v_next_eq x i r⟩

/-- **C16, the two shipped copies are the same design**: synth/processor.v and
    verilog/processor.v agree on all outputs and next-state registers. -/
theorem C16_copies (x : XBits) (i : ProcIn) (r : ProcRegs) :
    SynthVP.out x i r = VP.out x i r ∧ SynthVP.next x i r = VP.next x i r :=
  ⟨synth_out_eq x i r, synth_next_eq x i r⟩

/-- **C16 over time.**  From equal registers, over any sequence of events with any inputs and
    any x-bit choices (possibly different at every event), the three designs produce the same
    output sequence and end in the same registers. -/
theorem C16_seq (tr : List (XBits × ProcIn)) (r : ProcRegs) :
    vRun tr r = svRun tr r ∧ synthRun tr r = svRun tr r :=
  ⟨v_run_eq tr r, (synth_run_eq tr r).trans (v_run_eq tr r)⟩

/-- **C16 under the same memory and top level.**  The whole design — hex.sv + memory.sv with
    processor.v (either copy) substituted for processor.sv, each flattened by the translator —
    has the same top-level outputs and the same next state (four registers and the whole
    `memory_q`) for every input, register state, memory content and x-bit; hence the same state
    after any sequence of clock/reset events. -/
theorem C16_system (x : XBits) (i : HexIn) (r : HexRegs) :
    VH.next x i r = SvH.next i r ∧ VH.out x i r = SvH.out i r ∧
    SynthVH.next x i r = SvH.next i r ∧ SynthVH.out x i r = SvH.out i r :=
  ⟨hex_next_same x i r, hex_out_same x i r, synth_hex_next_same x i r, synth_hex_out_same x i r⟩

theorem C16_system_seq (tr : List (XBits × HexIn)) (r : HexRegs) :
    iterHex VH.next tr r = iterHex (fun _ => SvH.next) tr r ∧
    iterHex SynthVH.next tr r = iterHex (fun _ => SvH.next) tr r :=
  ⟨iterHex_congr _ _ hex_next_same tr r,
   iterHex_congr _ _ synth_hex_next_same tr r⟩

/-- The sensitivity lists agree (`posedge i_clk or posedge i_rst` in all three), so "an event"
    means the same thing for the three designs. -/
theorem C16_sens :
    Gen.V.Processor.sens = Gen.Sv.Processor.sens ∧ Gen.SynthV.Processor.sens = Gen.Sv.Processor.sens :=
  ⟨rfl, rfl⟩

/-- Non-vacuity: the machines are not constant — one LDAC 5 from the zero state loads 5 into
    areg in processor.v's model, and reset clears it again. -/
example :
    (VP.next ⟨0, 0, 0, 0, 0, 0, 0, 0⟩ ⟨0#1, 1#1, 0x35#8, 0#32⟩ ⟨0#21, 0#32, 0#32, 0#32⟩).areg_q = 5#32 ∧
    (VP.next ⟨1, 1, 1, 1, 1, 1, 1, 1⟩ ⟨1#1, 1#1, 0x35#8, 0#32⟩ ⟨7#21, 9#32, 0#32, 0#32⟩).areg_q = 0#32 := by
  decide

end Hex.Properties.C16
