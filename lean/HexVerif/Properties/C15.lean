import HexVerif.Lemmas.AsmDebug
import HexVerif.Lemmas.SimLoadFile
import HexVerif.Lemmas.XcmpPeepLabels
import HexVerif.Lemmas.XcmpPlainCode
/-
  C15 — trace and debug symbols report what is actually executing.
  Models: `Asm.emitGo` (debug table collection in hexasm.hpp `emitProgramBin`), `Sim.load`'s
  table reader, `Sim.lookupSymbol` (the linear scan as written), `Sim.traceLine` (leading
  columns of `trace()`).
  (d) "the sequence of procedure entries in a trace equals the call sequence of the source
  program" depends on C01 (compiler correctness) and is covered by the differential check
  `./check C15` only: C15_calls is NOT proved here.
-/
namespace Hex.Properties.C15
open Hex Hex.Asm Hex.Sim

/-- **(a) Symbol table.**  The table written into a binary lists exactly the FUNC/PROC labels of
    the program, once each, in source order, each with the running byte offset at which the
    assembler reached it. -/
theorem C15_symbols (p : List (Dir × Loc)) (img : Image) (hp : ParsedOk (p.map (·.1)))
    (hn : p.length < 2 ^ 26) (h : assemble p = .ok (some img)) :
    img.debug = symbolsOf (p.map (·.1)) img.resolved.lens 0 := by
  obtain ⟨lens0, _, _, h1, _, _, _, _, _, _, hdbg⟩ := assemble_facts p img hp hn h
  rw [hdbg, emit_debug, h1]

/-- ... that offset is the offset at which the image holds the first instruction after the label
    (the procedure's entry), ... -/
theorem C15_symbol_entry (kind : LabelKind) (name : String) (d : Dir) (rest : List Dir)
    (lens : List Nat) (vals : List I32) (pos : Nat) (hk : kind ≠ .plain) (hd : d.isInstr = true) :
    (symbolsOf (.label kind name :: d :: rest) lens pos).head? = some (name, pos) ∧
    ((expected (d :: rest) lens.tail vals.tail pos).head?.map (·.start)) = some pos :=
  symbol_is_first_instr kind name d rest lens vals pos hk hd

/-- ... and the table is in ascending offsets. -/
theorem C15_symbols_sorted (dirs : List Dir) (lens : List Nat) :
    (symbolsOf dirs lens 0).Pairwise (fun a b => a.2 ≤ b.2) := symbolsOf_sorted dirs lens 0

/-- **(b) Lookup.**  The symbol the trace shows for a pc is the table entry whose offset is at or
    below the pc and whose successor (if any) is above it; ... -/
theorem C15_lookup_sound (pc : Word) (tbl : List (String × Word)) (name : String)
    (h : lookupSymbol pc tbl = some name) :
    ∃ (i : Nat) (hi : i < tbl.length), tbl[i].1 = name ∧ tbl[i].2.toNat ≤ pc.toNat ∧
      (∀ h' : i + 1 < tbl.length, pc.toNat < tbl[i + 1].2.toNat) := by
  unfold lookupSymbol at h
  split at h
  · cases h
  · split at h
    · cases h
    · exact lookupSymbolAux_sound pc _ name h

/-- ... every pc at or above the first entry gets a symbol. -/
theorem C15_lookup_complete (pc : Word) (n : String) (off : Word) (rest : List (String × Word))
    (h : off.toNat ≤ pc.toNat) : (lookupSymbol pc ((n, off) :: rest)).isSome = true := by
  unfold lookupSymbol
  have : ¬ pc.toNat < off.toNat := by omega
  simp only [this, if_false]
  exact lookupSymbolAux_complete pc _ (by simp) (by intro e he; simp at he; subst he; exact h)

/-- **(c) Trace line.**  With `-t`, one loop iteration appends exactly one line, reporting the
    running instruction count, the byte address fetched from, and the mnemonic and 4-bit operand
    of the byte that `C02_step` shows is the instruction executed at this step. -/
theorem C15_line (p q : Proc) (w : Word) (ht : p.tracing = true)
    (hw : rd p.memory (p.pc >>> 2) = some w) (h : stepBody p = .ok q) :
    let byte : Word := (w >>> (((p.pc &&& 3) <<< 3).toNat)) &&& 0xFF
    ∃ line, q.traceLog = line :: p.traceLog ∧ line.cycles = p.cycles ∧ line.pc = p.pc ∧
      line.mnemonic = instrEnumToStr (((byte >>> 4) &&& 0xF).toNat) ∧ line.operand = (byte &&& 0xF).toNat := by
  obtain ⟨h1, h2, h3, h4⟩ := traceLine_fetchDecode p w
  exact ⟨_, stepBody_traceLog p q w ht hw h, h1, h2, h3, h4⟩

/-- Offset 0 exactly at an entry: the offset shown is `pc − (offset of the symbol found)`. -/
theorem C15_offset_zero_at_entry (name : String) (off : Word) :
    off - mapLookup name [(name, off)] = 0 := by
  simp [mapLookup]

/-- **(a) continued: the table reaches the simulator.**  hexsim's `load()` applied to the file the
    assembler writes puts the image words into memory and reads back exactly the assembler's
    symbol table - every FUNC/PROC name with its byte offset, in the same order (so
    `C15_symbols` / `C15_symbols_sorted` speak about the table the trace looks names up in).
    Side conditions: the image fits the memory, fewer than 2^31 symbols, no NUL byte in a name. -/
theorem C15_loader_roundtrip (p : List (Dir × Loc)) (img : Image) (mem0 : Mem) (hp : ParsedOk (p.map (·.1)))
    (hn : p.length < 2 ^ 26) (h : assemble p = .ok (some img)) (hfit : img.bytes.length ≤ 4 * memWords)
    (hd : img.debug.length < 2 ^ 31) (hnul : ∀ e ∈ img.debug, (0 : Byte) ∉ Sim.nameBytes e.1) :
    Sim.loadParts mem0 (fileBytes img) =
      some (mem0.loadWords (wordsOfBytes img.bytes), Sim.loadedSymbols img.debug) := by
  obtain ⟨h1, h2⟩ := assemble_size p img hp hn h
  exact Sim.loadParts_fileBytes mem0 img h1 h2 hfit hd hnul


/-- **(a) on the compiler side, one pass.**  The peephole pass of xcmp (`OptimiseDirectives`, the last
    pass before the in-process assembler) keeps every label of the directive list - plain, FUNC and
    PROC - in place and in order: its three windows delete instructions only.  Hence the symbol
    table the assembler builds (`C15_symbols`) lists exactly the FUNC/PROC labels that lowering
    produced.  (That lowering emits one such label per procedure of the source, in source order,
    is checked per compiled program - `runner/c15d.py` - and not proved.) -/
theorem C15_peephole_keeps_labels (ds : List Dir) :
    Xcmp.labelsOf (Xcmp.peephole ds) = Xcmp.labelsOf ds :=
  Xcmp.peephole_labels ds


/-- **(a) on the compiler side, code generation.**  For every X program the compiler model accepts,
    the intermediate code carries exactly one PROLOGUE marker per procedure or function of the SOURCE
    program, in source order - called or not - and the bodies contain no procedure-level directive
    (`Xcmp.genStmt_pc`: only instructions, frame accesses and plain generated labels).  Lowering
    turns each marker into that procedure's FUNC/PROC label (by the symbol's type; not proved here),
    the peephole pass keeps labels (`C15_peephole_keeps_labels`), the assembler lists the FUNC/PROC
    labels (`C15_symbols`), hexsim reads them back (`C15_loader_roundtrip`). -/
theorem C15_one_marker_per_procedure (P : X.Program) (st : Xcmp.Stages) (h : Xcmp.stages P = .ok st) :
    Xcmp.procMarks st.cg.instrs = P.procs.map (·.name) :=
  Xcmp.stages_marks P st h


/-- **(a) on the compiler side, lowering of bodies.**  The code of a procedure body (`Xcmp.genStmt_pc`:
    plain) lowers to a directive list whose labels are all plain: no FUNC / PROC label ever comes out
    of a body, so every FUNC / PROC label of the program stems from a PROLOGUE marker. -/
theorem C15_bodies_lower_to_plain_labels (out : Xcmp.CGOut) (ctx : Xcmp.Ctx) (st : Xcmp.AStmt) (gs gs' : Xcmp.GS)
    (code : Xcmp.Code) (h : Xcmp.genStmt ctx st gs = .ok (code, gs')) :
    ∀ l ∈ Xcmp.labelsOf (Xcmp.lowerCode out code), l.1 = LabelKind.plain :=
  Xcmp.lowerCode_plain_labels out code ((Xcmp.genStmt_pc ctx st).h gs code gs' h)


end Hex.Properties.C15
