import HexVerif.Lemmas.XcmpC08
import HexVerif.Lemmas.XcmpC08V2
import HexVerif.Xcmp.Compile
import HexVerif.Properties.C01
/-!
  # C08 - generated code stays inside its memory regions and balances the stack

  FULL STATEMENT (not discharged; it is a corollary of the frame invariant of the full C01):

      theorem C08 : Supported P → X.run P inp n = .defined β → Xcmp.compile P = .ok img →
          ∀ access ∈ accesses (Isa.run img inp), access.addr < 200000 ∧
            (access.isStore → ¬ inCode img access.addr ∧ (inDataWords img access.addr ∨ access.addr ≥ img.words)) ∧
            sp ≤ sp₀          and   mainReturns → sp = sp₀

  Discharged here, on the compiler model alone and for EVERY program the model compiles
  (`C08_static_*`, DESIGN.md §6 C08 "independently provable now"):
  * `C08_static_temps`   - every frame-relative access (`IDir.fb`) the statement generator emits is a
    temporary of the procedure's own frame at an offset below the resulting `Frame::size`, or the
    slot of a symbol found in the current scope; `C08_static_lowered`: such a temporary is lowered
    to an offset in `[0, size)`; a symbol slot to `size - 1 + stackOffset`;
  * `C08_static_outgoing` - the outgoing area of every call (link, result, parameters) fits the
    frame: `nargs + paramOffset <= size`, so every `STAI p` of `loadActuals` has `p < size`;
  * `C08_static_program` - `codeGen` output = start-up stub followed by one segment per procedure,
    each satisfying the above with respect to the FINAL size of its frame (what `LowerDirectives`
    uses);
  * `C08_static_balance` - the prologue lowers the stack pointer by exactly the frame size and the
    epilogues raise it by exactly the frame size (as executions of `IAm`);
  * `C08_static_sp`      - the initial stack pointer is `199997 - globalsOffset`; `sp + 2` lies
    inside the memory and below the global arrays;
  * `C08_store_discipline` - every step of the machine `IAm` on which the C01 theorems run writes
    at most one word, inside the memory and outside the code; hence every run that
    `C01_v1_partial` / `C01_v2_partial` construct stores only into non-code words below 200000.
  * `C08_v2_partial` - for the class `v2Ok` of `C01_v2_partial` (procedures and functions, recursion):
    the ISA run on the image exits with the behaviour of the reference semantics, the memory of its
    final state differs from the boot memory only in words inside the memory that hold no
    instruction byte (the net effect of all stores lies outside the code), and when `main`
    returns (rather than exiting through a system call) the machine reaches the exit stub with
    the stack pointer word holding its initial value.  (Along the run every activation has
    `lo <= sp` and `sp + size <= sp0`; this is the invariant of the induction `all_correct` and is
    not exported per step.)
  * `C08_v3_partial` - the same for the class `v3Ok`; `C08_access_log` - the per-access clause
    ("every fetch, load and store addresses a word below 200000") holds along every ISA run that
    exits, with the log (`Isa.runAccesses`) proved faithful to the guards of `Isa.step`.
  Not discharged: that the `stackOffset` of every symbol in scope is one `LocalDeclLocations` /
  `FormalLocations` assigned (needs symbol-table lemmas; for the classes V1/V2 it is part of the
  reflective checks `v1Check`/`v2Check`), and the dynamic clauses on the ISA access log.
-/
namespace Hex.C08
open Hex Hex.Xcmp

/-- **`C08_static_temps`.**  Whatever statement is generated, from any generator state whose
    frame offset does not exceed its frame size: each `IDir.fb` of the generated code is a
    temporary `(-o)` of the own frame with `o < size'` (the frame size after generation), or the
    slot of a symbol looked up in the current scope. -/
theorem C08_static_temps (ctx : Ctx) (s : AStmt) (gs : GS) (code : Code) (gs' : GS)
    (h : genStmt ctx s gs = .ok (code, gs')) (ho : gs.offset ≤ gs.size) : CodeOk ctx gs'.size code :=
  genStmt_ok ctx s gs code gs' h ho

/-- **`C08_static_outgoing`.**  The code of a call (system call, function, procedure): accesses as
    above, and the outgoing area fits the frame. -/
theorem C08_static_outgoing (ctx : Ctx) (kind : CallKind) (args : List AExpr) (gs gs' : GS) (code : Code)
    (h : callSeq kind args.length (countCalls args) (genCallActuals ctx args) (fun p s => loadActuals ctx args p s) gs
          = .ok (code, gs')) (ho : gs.offset ≤ gs.size) :
    CodeOk ctx gs'.size code ∧ args.length + kind.paramOffset ≤ gs'.size :=
  callSeq_ok ctx kind args gs gs' code h ho

/-- **`C08_static_program`.**  The intermediate code of a compiled program. -/
theorem C08_static_program (tbl : SymTab) (A : AProgram) (cg : CGOut) (h : codeGen tbl A = .ok cg) :
    ∃ segs : List (Ctx × Code), cg.instrs = startStub ++ segs.flatMap (fun s => segCode s.1 s.2) ∧
      ∀ s ∈ segs, CodeOk s.1 (frameOf cg s.1.frame).size s.2 :=
  codeGen_ok tbl A cg h

/-- **`C08_static_lowered`.**  `LowerDirectives` on a temporary of the own frame. -/
theorem C08_static_lowered (out : CGOut) (k : FbKind) (frame : Nat) (off : Int)
    (h1 : off ≤ 0) (h2 : (-off).toNat < (frameOf out frame).size) :
    ∃ o : Int, lowerOne out (.fb k frame off) = [.imm (fbOpc k) o] ∧ 0 ≤ o ∧ o < (frameOf out frame).size :=
  C01s.lower_temp out k frame off h1 h2

/-- **`C08_static_balance`.**  Entry lowers the stack pointer by the frame size (and stores the
    link at the caller's `sp[0]`, nothing else); the exit of a procedure raises it by the same size
    and changes nothing else. -/
theorem C08_static_balance (env : IAm.Env) (k : Asm.LabelKind) (name xl : String) (S : Nat) (i j : Nat)
    (hpro : C01s.At env.ds i (C01s.proDirs k name S)) (hepi : C01s.At env.ds j (C01s.epiProcDirs xl S)) :
    (∀ (lnk b : Word) (mem : Mem) (sp : Nat) (io : Isa.IOSt), mem.read 1 = BitVec.ofNat 32 sp → sp < memWords →
        env.isCode sp = false → 2 ≤ sp → env.isCode 1 = false → S ≤ sp →
        ∃ a' mem', IAm.Steps env (C01s.cfg i lnk b mem) io (C01s.cfg (i + (C01s.proDirs k name S).length) a' (BitVec.ofNat 32 sp) mem') io ∧
          mem'.read 1 = BitVec.ofNat 32 (sp - S) ∧ mem'.read sp = lnk ∧ ∀ w, w ≠ 1 → w ≠ sp → mem'.read w = mem.read w) ∧
    (∀ (a b : Word) (mem : Mem) (sp' : Nat) (io : Isa.IOSt) (kk : Nat) (kind : Asm.LabelKind) (n : String),
        mem.read 1 = BitVec.ofNat 32 sp' → 2 ≤ sp' → sp' + S < memWords → env.isCode 1 = false →
        env.ds[kk]? = some (.label kind n) → env.addr kk = (mem.read (sp' + S)).toNat →
        ∃ a' b' mem', IAm.Steps env (C01s.cfg j a b mem) io (C01s.cfg kk a' b' mem') io ∧
          mem'.read 1 = BitVec.ofNat 32 (sp' + S) ∧ ∀ w, w ≠ 1 → mem'.read w = mem.read w) :=
  ⟨fun lnk b mem sp io h1 h2 h3 h4 h5 h6 => C01s.exec_prologue env k name S i hpro lnk b mem sp io h1 h2 h3 h4 h5 h6,
   fun a b mem sp' io kk kind n h1 h2 h3 h4 h5 h6 =>
     C01s.exec_epilogue_proc env xl S j hepi a b mem sp' io h1 h2 h3 h4 kk kind n h5 h6⟩

/-- **`C08_static_sp`.** -/
theorem C08_static_sp (go : Int) (h0 : 0 ≤ go) (h1 : go ≤ 199997) :
    spValue go = 199997 - go ∧ 0 ≤ spValue go ∧ spValue go + 2 < MAX_ADDRESS - go :=
  C01s.spValue_bounds go h0 h1

/-- **`C08_store_discipline`.** -/
theorem C08_store_discipline (env : IAm.Env) (c c' : IAm.Cfg) (io io' : Isa.IOSt) (h : IAm.Step env c io c' io') :
    c'.mem = c.mem ∨ ∃ w v, c'.mem = c.mem.write w v ∧ w < memWords ∧ env.isCode w = false :=
  C01s.step_store env c c' io io' h

/-- **`C08_v2_partial`.**  Restriction: `C01s.v2Ok P` (decidable).  If the reference semantics
    defines the behaviour `β` and the compiler produces `img`, then the ISA run on `img` exits with
    `β.exit` and `β.events`; EVERY fetch, load and store of that run addresses a word below 200000
    (`Isa.runAccesses`: the addresses as the hardware forms them, not the guarded ones); every word
    of its final memory that differs from the boot memory lies
    inside the memory and holds no instruction byte of the final program; and if `main` returned,
    the run (seen on the lowered directive list, before the peephole pass) passes the `_exit` label
    of the start-up stub with `mem[1]` = the initial stack pointer `spValue globalsOffset`. -/
theorem C08_v2_partial (P : X.Program) (inp : X.Input) (n : Nat) (β : X.Behaviour) (st : Stages) (img : Asm.Image)
    (hr : C01s.v2Check P st img = true) (hst : stages P = .ok st) (hasm : assembleDirs st.optimised = .ok img)
    (hrun : X.run P inp n = .defined β) :
    ∃ m code j s' io, Isa.run m (Am.boot img) (Isa.IOSt.init inp.stdin inp.files) = .exited code j s' io ∧
      code = β.exit ∧ io.log.reverse = β.events ∧
      Isa.AllIn (Isa.runAccesses m (Am.boot img) (Isa.IOSt.init inp.stdin inp.files)) ∧
      (∀ w, s'.mem.read w ≠ (Am.boot img).mem.read w → w < memWords ∧ (IAm.envOf st.optimised img).isCode w = false) ∧
      (β.returned = true → ∃ a' b' mem',
        IAm.Steps (C01s.v1Env st img) (C01s.cfg 0 0 0 (Am.boot img).mem) (Isa.IOSt.init inp.stdin inp.files)
          (C01s.cfg (2 + st.cg.data.length + 3) a' b' mem') io ∧
        mem'.read 1 = BitVec.ofNat 32 (spValue st.cg.globalsOffset).toNat) := by
  have _ := hst
  exact C01s.v_c08 false P st img inp n β hasm hr hrun

/-- **`C08_v3_partial`.**  The same for the class `C01s.v3Ok` of `C01_v3_partial` (calls of pure
    functions anywhere in operands and actuals, one call of any callee next to constants). -/
theorem C08_v3_partial (P : X.Program) (inp : X.Input) (n : Nat) (β : X.Behaviour) (st : Stages) (img : Asm.Image)
    (hr : C01s.v3Check P st img = true) (hst : stages P = .ok st) (hasm : assembleDirs st.optimised = .ok img)
    (hrun : X.run P inp n = .defined β) :
    ∃ m code j s' io, Isa.run m (Am.boot img) (Isa.IOSt.init inp.stdin inp.files) = .exited code j s' io ∧
      code = β.exit ∧ io.log.reverse = β.events ∧
      Isa.AllIn (Isa.runAccesses m (Am.boot img) (Isa.IOSt.init inp.stdin inp.files)) ∧
      (∀ w, s'.mem.read w ≠ (Am.boot img).mem.read w → w < memWords ∧ (IAm.envOf st.optimised img).isCode w = false) ∧
      (β.returned = true → ∃ a' b' mem',
        IAm.Steps (C01s.v1Env st img) (C01s.cfg 0 0 0 (Am.boot img).mem) (Isa.IOSt.init inp.stdin inp.files)
          (C01s.cfg (2 + st.cg.data.length + 3) a' b' mem') io ∧
        mem'.read 1 = BitVec.ofNat 32 (spValue st.cg.globalsOffset).toNat) := by
  have _ := hst
  exact C01s.v_c08 true P st img inp n β hasm hr hrun

/-- **`C08_access_log`.**  The access log is faithful to the guards of the ISA: a step is
    `undef outOfRange` exactly when its log holds a word address `>= 200000`; hence a run that
    exits has only in-range entries - for ANY image, not only compiled ones. -/
theorem C08_access_log (s : Isa.St) (io : Isa.IOSt) :
    (Isa.step s io = .undef .outOfRange ↔ ¬ Isa.AllIn (Isa.stepAccesses s)) ∧
    (∀ fuel k code j s' io', Isa.run fuel s io k = .exited code j s' io' → Isa.AllIn (Isa.runAccesses fuel s io)) :=
  ⟨Isa.step_outOfRange_iff s io, fun fuel k code j s' io' h => Isa.run_exited_inrange fuel s io k code j s' io' h⟩

/-! Non-vacuity of `C08_v2_partial`: the program `C01.demoV2` (recursive function, a procedure with
    two parameters, a global) satisfies its hypotheses; its `main` exits through `0(r)`, and
    `C01.demoV1`-like programs whose `main` returns are covered by the same check. -/
example : ∃ st img, stages C01.demoV2 = .ok st ∧ assembleDirs st.optimised = .ok img ∧
    C01s.v2Check C01.demoV2 st img = true := by
  have h : C01s.v2Ok C01.demoV2 = true := by decide +kernel
  unfold C01s.v2Ok at h
  split at h
  · rename_i st hst
    split at h
    · rename_i img himg
      exact ⟨st, img, hst, himg, h⟩
    · simp at h
  · simp at h

/-! Non-vacuity of `C08_v3_partial`: `C01.demoV3` (calls of a recursive function as operands). -/
example : ∃ st img, stages C01.demoV3 = .ok st ∧ assembleDirs st.optimised = .ok img ∧
    C01s.v3Check C01.demoV3 st img = true := by
  have h : C01s.v3Ok C01.demoV3 = true := by decide +kernel
  unfold C01s.v3Ok at h
  split at h
  · rename_i st hst
    split at h
    · rename_i img himg
      exact ⟨st, img, hst, himg, h⟩
    · simp at h
  · simp at h

/-! The access log on concrete states: `LDAM 5` at pc 0 fetches word 0 and loads word 5; an `LDAI`
    whose effective address wraps to 0xFFFFFFFF is logged with that address (and is out of range). -/
example : Isa.stepAccesses { pc := 0, a := 0, b := 0, o := 0, mem := Mem.zero.write 0 0x05 } =
    [⟨.fetch, 0⟩, ⟨.load, 5⟩] := by decide +kernel
example : Isa.stepAccesses { pc := 1, a := 0xFFFFFFFE, b := 0, o := 0, mem := Mem.zero.write 0 0x6100 } =
    [⟨.fetch, 0⟩, ⟨.load, 0xFFFFFFFF⟩] := by decide +kernel

/-! Non-vacuity: a statement with a live temporary (`x := (a + b) + (c + d)`, all locals) is
    generated from a state with `offset = size = 4`; the premises hold and the frame grows to 5. -/

def demoTbl : SymTab :=
  [(("main", "a"), { type := .var, node := .ldecl 0 0, isValDecl := false, scope := "main", name := "a", stackOffset := 0 }),
   (("main", "b"), { type := .var, node := .ldecl 0 1, isValDecl := false, scope := "main", name := "b", stackOffset := -1 }),
   (("main", "c"), { type := .var, node := .ldecl 0 2, isValDecl := false, scope := "main", name := "c", stackOffset := -2 }),
   (("main", "x"), { type := .var, node := .ldecl 0 3, isValDecl := false, scope := "main", name := "x", stackOffset := -3 })]

def demoCtx : Ctx := { tbl := demoTbl, scope := "main", frame := 0, exitLabel := "_lab0" }

def demoStmt : AStmt :=
  .assign "x" (.bin .plus (.bin .plus (.name "a" none) (.name "b" none) none) (.bin .plus (.name "c" none) (.name "a" none) none) none)

def isOkSize (r : Except CDiag (Code × GS)) (n : Nat) : Bool :=
  match r with
  | .ok (_, gs) => gs.size == n
  | .error _ => false

example : isOkSize (genStmt demoCtx demoStmt { offset := 4, size := 4 }) 5 = true := by decide +kernel

example : ∃ code gs', genStmt demoCtx demoStmt { offset := 4, size := 4 } = .ok (code, gs') ∧ CodeOk demoCtx gs'.size code := by
  cases h : genStmt demoCtx demoStmt { offset := 4, size := 4 } with
  | ok v => exact ⟨v.1, v.2, rfl, C08_static_temps demoCtx demoStmt _ v.1 v.2 h (Nat.le_refl _)⟩
  | error e =>
    have : isOkSize (genStmt demoCtx demoStmt { offset := 4, size := 4 }) 5 = true := by decide +kernel
    rw [h] at this
    simp [isOkSize] at this

example : spValue 0 = 199997 := (C08_static_sp 0 (by decide) (by decide)).1

end Hex.C08
