import HexVerif.Lemmas.AsmLayout
import HexVerif.Properties.C05
/-
  C17 — listings agree with the binary they describe.
  `Asm.listing` models hexasm.hpp `emitProgramText` (offset, `toString()`, size per directive);
  `Asm.checkListing` is the decidable statement: at the listed offset of every instruction and
  DATA directive the ISA decode of the image finds exactly that directive, occupying exactly
  the listed number of bytes, and a label operand is shown with the value actually encoded.
-/
namespace Hex.Properties.C17
open Hex Hex.Asm

/-- **C17.** For every accepted program the listing lines of its directives (everything but the
    final PADDING line) describe the emitted image. -/
theorem C17 (src : List Byte) (img : Image) (p : List (Dir × Loc))
    (hparse : parseProgram (tokenize src) = .ok p) (hn : p.length < 2 ^ 26)
    (ha : assemble p = .ok (some img)) :
    checkListing (p.map (·.1)) img.bytes
      (listingGo (p.map (·.1)) img.resolved.offs img.resolved.lens img.resolved.vals) = true :=
  assemble_checkListing p img (parse_ok _ _ hparse) hn ha

/-- The listing printed is those lines followed by the PADDING line. -/
theorem C17_listing_shape (p : List (Dir × Loc)) (img : Image) :
    (listing p img).dropLast
      = listingGo (p.map (·.1)) img.resolved.offs img.resolved.lens img.resolved.vals := by
  simp [listing]

/-- Between and after the listed directives there is nothing but zero bytes: this is part of
    `checkImage` (C05), which holds of the same image. -/
theorem C17_gaps (src : List Byte) (img : Image) (p : List (Dir × Loc))
    (hrun : Asm.run src = .ok img p) (hn : p.length < 2 ^ 26) :
    checkImage (p.map (·.1)) img.bytes = true :=
  Hex.Properties.C05.C05 src img p hrun hn

end Hex.Properties.C17
