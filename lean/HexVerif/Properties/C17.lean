import HexVerif.Lemmas.AsmEncode
namespace Hex.Properties.C17
-- theorems follow
end Hex.Properties.C17
