import HexVerif.Lemmas.XcmpAmImage
import HexVerif.Lemmas.XcmpIAm
import HexVerif.Lemmas.XcmpStage3
import HexVerif.Lemmas.XcmpWitness
import HexVerif.Lemmas.XcmpV1
import HexVerif.Lemmas.XcmpV2
import HexVerif.Lemmas.XcmpOnHexsim
import HexVerif.Lemmas.XcmpPackString
import HexVerif.Xcmp.Compile
import HexVerif.X.Sem
/-!
  # C01 - xcmp preserves X source semantics

  FULL STATEMENT (not yet discharged; the proof is staged, DESIGN.md §6 C01 and Appendix A):

      theorem C01 (P : X.Program) (inp : X.Input) (n : Nat) (β : X.Behaviour) (img : Asm.Image) :
          X.run P inp n = .defined β →                -- includes `Supported P` (`checkProgram`, `checkProcs`)
          Xcmp.compile P = .ok img →
          ∃ m, Exhibits (Isa.run m (Am.boot img) (Isa.IOSt.init inp.stdin inp.files)) inp β

  where `Exhibits r inp β` says that the ISA run `r` exited with `β.exit` after producing exactly
  the I/O events `β.events` and consuming `β.stdinConsumed` bytes of standard input.

  The compiler model `Xcmp.compile` (lean/HexVerif/Xcmp/*) is tied to xcmp.hpp on every run by
  runner/c01model.py (byte-identical output of every stage).  Proof architecture:

      X.Sem  --(stages 2,3,4)-->  IAm on the lowered directives  --(peephole: `peep_run`)-->  IAm on
      the final directives  --(stage 1: `IAm_refines_Isa`, `Am_refines_Isa`)-->  Isa on the bytes.

  Discharged here:
  * stage (1) `Am_refines_Isa`, for EVERY directive list the assembler accepts (so in particular
    for every output of the compiler), with no restriction on the program; and its indexed form
    `IAm_refines_Isa` (program counter = directive index, labels by name), under the decidable side
    condition `Separated ds` (no fall-through into a DATA word);
  * stage (2) `C01_stage2_partial`: every call-free expression (`pureE`, decidable);
  * stage (3) `C01_stage3_partial`: every statement without user calls (`okS`, decidable): skip,
    stop, return, assignment to variables, if, while, sequences, the system calls 0/1/2 with
    call-free actuals.
  Stages (2) and (3) are Hoare triples over the LOWERED directive list, relative to a procedure
  context `PCtx` whose well-formedness (`PCtx.WF`/`PCtx.WFS`: label names unique, where each
  variable in scope lives, the frame lies inside memory and outside the code) a whole-program
  theorem has to establish from `Xcmp.compile P = .ok img`.
  * `C01_v1_partial`: the FULL statement above, end to end (source run to ISA run on the bytes), for
    the class `v1Ok P` (decidable): one procedure `main` without formals, `var` declarations only,
    body in the stage-3 fragment, and the compilation passes the reflective check `v1Check`
    (lowered program has the expected shape, `PCtx.WFS` holds of the context computed from the
    compiler's symbol table and the assembler's layout, the stack lies above the image).  The
    check is computed, not assumed: `Lemmas/XcmpV1.lean` proves it sound, and runner/c01model.py
    evaluates it on every V1 program of its corpus (all pass).
  * the peephole pass (`OptimiseDirectives`) for ARBITRARY directive lists with unique label
    names: `peep_run` (Lemmas/XcmpPeep.lean) - every terminating `IAm` run on the list before the
    pass, laid out through the list after it, is a run on the list after it; deleted
    instructions are stutter steps.  `C01_v1_partial` goes through it.
  * stage (4) `C01_stage4_partial` (`Lemmas/XcmpStage4*.lean`): user procedures and functions with
    `val` formals, recursion included - by induction on the fuel of the reference semantics, the
    statement triples of EVERY procedure in EVERY activation within the stack budget
    (`X.maxDepth` frames) together with the specification `CallSpec` of every callee (entered at
    its prologue with the link in areg and the actuals in the caller's outgoing slots, it returns
    to the link label with the stack pointer restored, the caller's frame intact except `sp[0]`,
    `sp[1]`, and the global state of the reference semantics in memory; or exits).  Restriction
    (decidable, `okS4`): calls occur as `p(args)`, `v := f(args)`, `return f(args)` with call-free
    actuals; `var` declarations only; no local or formal is named like a global.
  * `C01_v2_partial`: the FULL statement above, end to end, for the class `v2Ok P` (decidable): any
    number of procedures and functions in the stage-4 fragment whose compilation passes the
    reflective check `v2Check` (per procedure: `PCtx.WFS` at the lowest stack pointer - lifted to
    every activation by `wfs_shift` -, code positions, frame accounting, symbol-table facts; and
    `imageWords <= spv - 64 * Smax`).
  * `C01_string_packing`: the packing loop of `genString` = the packed value of the reference semantics, for every
    byte string below 256 bytes (unconditional; the string-literal seeds C11e, C09g, C01h all hit this loop).
  * `C01_v3_on_hexsim`: the same for the class `v3Ok`, stated over the models of ALL THREE tools: compiler
    model's file -> model of hexsim's `load()` -> model of hexsim's `run()` (loader round trip + C02).
  * `C01_v3_partial`: the FULL statement, end to end, for the class `v3Ok P` (decidable): the class
    V2 plus calls of PURE functions (outside `X.impureProcs P`; call-free actuals) anywhere in the
    operands of right-hand sides, `return` values and the conditions of `if`/`while`
    (`Lemmas/XcmpPExpr.lean`, `XcmpXPure.lean`).  xcmp evaluates the right operand first when it
    needs areg, X the left one: for pure callees the orders differ in the step counter and the
    call log only, which `Rep` ignores.  The stage-4 induction (`C01_stage4_partial`) is stated
    over the fragment `okS5 G.pk` (`G.pk = false`: the fragment of V2).
  * Arrays: the classes V2 and V3 include GLOBAL ARRAYS whose length is a literal: subscripts `a[i]`
    with a call-free index anywhere in call-free expressions (and as operands next to pure calls),
    and `a[i] := e` with call-free `i`, `e`.  `Rep` relates the pointer word behind the array's
    label and every ASSIGNED cell to the reference state; array cells are excluded from every
    "the callee leaves the caller's memory alone" clause.  xcmp emits no bounds checks: the
    theorem speaks of defined runs only, and X leaves out-of-range subscripts undefined.
    ARRAY FORMALS are included: an actual is the name of a global array or of an array formal; the
    word passed is the array's address (`VRepOf`), `CallSpec` speaks of values.
    STRING LITERALS are included as actuals of array formals: the word passed is the word address of
    the literal's label in the string pool (`LDAC _stringN`; each occurrence has its own label, so
    the triples of actuals are stated with a predicate on the word, `ExecP`); `Rep.strs` relates the
    pool to `X.packString` (checked on the image by `strCheck`), a subscript of a formal bound to a
    literal reads the pool, an assignment to one is an error of X.  Literals as operands are in the
    fragment too, vacuously (X gives no integer for them).
    GLOBAL CONSTANTS (`val n = e`) are included: `ConstProp`'s table is `G.rho` (= what `X.bindGlobals`
    computes), array lengths may be constants, and a call through a constant `< 3` is the system call
    with that number (`execS_valcall`).
    CALLS INSIDE ACTUALS: (V3) calls of pure functions anywhere in the actuals of a call statement or
    of a call that is a whole right-hand side (`exec_usercallP`: the actuals with calls are evaluated
    first and parked in temporaries, as `genCallActuals` does); (V2 and V3) one call - ANY callee - as
    the first actual next to constants (`putval(rem(w, 256))`, `argsOK_first`).
    A CALL OF ANY FUNCTION IN AN OPERAND (V2 and V3, `Lemmas/XcmpIExpr.lean`): one call - the callee may
    change globals, do I/O, terminate the program - under monadic `-`, `~` and under `+ - = ~= < <= > >=`
    whose other operand is a constant (literal or name of a constant), nested to any depth; these are
    the only operator expressions over an impure call whose value X defines (`X.orderOk`).  Allowed as
    right-hand side, `return` value and as the condition of `if` / `while` (`CondOK` now leads from
    the state before to the state after the condition, or to termination inside it).  The operator
    shapes are proved once for triples `ExecT` with a state before and a state after.
    SYSTEM CALL 2 (INPUT) AS AN EXPRESSION: `2(s)` and `get(s)` through a constant, as a right-hand side
    and as the call of an expression of the class above (`execX_sys`).
    ONE ACTUAL WITH CALLS NEXT TO CONSTANTS (V2 and V3): in a user call, a system-call statement or a
    call through a constant, one actual - at any position - may be an expression of the class above
    (class `ipE5` / `oneImp5`, mutually recursive: `put(get(0), 0)`, `exit(fib(get(0)))`,
    `p(1, f(g(x)) + 1)`), the others constants; again exactly what `X.orderOk` allows.
    `ActPhase` (the two passes over the actuals) serves user calls (`argsOK_of_phase`) and system
    calls (`execS_syscall_phase`, `exec_systail`).
    Of the repository's tests/x programs, bubblesort, echo_char, exit, fib, hello_prints, hello_putval,
    printhex and printn are in the class V3 with a passing check; the others are outside because of
    constructs whose value X leaves undefined (two impure actuals, an impure call next to a variable).
    CALLS IN `a[i] := e` (`execS_assignSubG`): subscript and value with calls of pure functions (V3);
    or one of them with calls of any callee and the other a constant (V2 and V3).
  Open: local `val`s and local arrays, `and` / `or` over an impure call;
  replacing the reflective checks by a proof that they always succeed.
-/
namespace Hex.C01
open Hex Hex.Isa

/-- The ISA run `r` shows behaviour `β`. -/
def Exhibits (r : Isa.RunResult) (inp : X.Input) (β : X.Behaviour) : Prop :=
  ∃ code steps s io, r = .exited code steps s io ∧ code = β.exit ∧ io.log.reverse = β.events ∧
    inp.stdin.length - io.stdin.length = β.stdinConsumed

/-- **Stage (1) of C01, `Am_refines_Isa`.**  Let `ds` be any directive list (in particular the
    output of `Xcmp.compileDirs`) that the assembler accepts with image `img`, small enough to fit
    the memory.  Then from the boot state every run of the abstract machine `Am` - which executes
    one directive per step with its full 32-bit operand, labels resolved through the assembler's
    layout, and faults when a store hits an instruction - is reproduced by the ISA on the bytes:
    same exit code, same final registers and memory, same I/O log (and likewise for runs that end
    in an instruction the ISA leaves undefined, and for unfinished runs). -/
theorem Am_refines_Isa (ds : List Asm.Dir) (img : Asm.Image)
    (hp : Asm.ParsedOk ds) (hn : ds.length < 2 ^ 26)
    (hasm : Asm.assemble (Xcmp.withLoc ds) = .ok (some img))
    (hfit : img.bytes.length ≤ 4 * memWords)
    (fuel : Nat) (io : IOSt) :
    Am.Simulates (Am.run (Am.ofImage ds img) fuel (Am.boot img) io) (Am.boot img) io := by
  apply Am.run_refines
  · exact Am.assemble_loaded ds img _ hp hn hasm (Am.boot_loaded img.bytes hfit)
  · rfl

/-- Corollary in the shape of C01's conclusion: an `Am` run that exits is an ISA run that exits
    with the same code, final state and I/O. -/
theorem Am_refines_Isa_exit (ds : List Asm.Dir) (img : Asm.Image)
    (hp : Asm.ParsedOk ds) (hn : ds.length < 2 ^ 26)
    (hasm : Asm.assemble (Xcmp.withLoc ds) = .ok (some img))
    (hfit : img.bytes.length ≤ 4 * memWords)
    (fuel : Nat) (io : IOSt) (c : Word) (k : Nat) (s' : St) (io' : IOSt)
    (hrun : Am.run (Am.ofImage ds img) fuel (Am.boot img) io = .exited c k s' io') :
    ∃ m j, Isa.run m (Am.boot img) io = .exited c j s' io' := by
  have := Am_refines_Isa ds img hp hn hasm hfit fuel io
  rw [hrun] at this
  exact this

/-! ### Non-vacuity: a concrete program that the assembler accepts, whose `Am` run exits -/

/-- `BR start; DATA 100; start: LDBM 1; LDAC 7; STAI 2; LDAC 0; OPR SVC` - exits with 7. -/
def demo : List Asm.Dir :=
  [.ref 0x9 "start" true, .data 100, .label .plain "start", .imm 0x1 1, .imm 0x3 7, .imm 0x8 2, .imm 0x3 0, .opr 3]

def demoImg : Asm.Image :=
  match Asm.assemble (Xcmp.withLoc demo) with
  | .ok (some img) => img
  | _ => { bytes := [], sizeBytes := 0, debug := [], resolved := ⟨[], [], [], [], 0⟩ }

def exitCode? : Am.RunResult → Option Word
  | .exited c _ _ _ => some c
  | _ => none

def isOk : Except Asm.Diag (Option Asm.Image) → Bool
  | .ok (some _) => true
  | _ => false

theorem demo_assembles : Asm.assemble (Xcmp.withLoc demo) = .ok (some demoImg) := by
  have h : isOk (Asm.assemble (Xcmp.withLoc demo)) = true := by decide +kernel
  unfold demoImg
  cases h' : Asm.assemble (Xcmp.withLoc demo) with
  | error e => rw [h'] at h; simp [isOk] at h
  | ok o =>
    cases o with
    | none => rw [h'] at h; simp [isOk] at h
    | some img => rfl

example : Asm.ParsedOk demo := by simp [demo, Asm.ParsedOk, Asm.InInt32]
example : demoImg.bytes.length ≤ 4 * memWords := by decide +kernel
example : exitCode? (Am.run (Am.ofImage demo demoImg) 10 (Am.boot demoImg) (IOSt.init [])) = some 7 := by
  decide +kernel

/-! ### Stage (1b): the indexed machine -/

/-- **`IAm_refines_Isa`.**  For an assembled directive list without fall-through into data: if the
    indexed machine (pc = directive index, labels resolved by name), started at directive 0 with the
    image in memory, reaches the exit system call with code `code`, then the ISA on the image bytes
    exits with the same code and the same I/O. -/
theorem IAm_refines_Isa (ds : List Asm.Dir) (img : Asm.Image) (g : IAm.Good ds img) (io0 : IOSt)
    (c : IAm.Cfg) (io : IOSt) (code : Word)
    (hsteps : IAm.Steps (IAm.envOf ds img) (IAm.bootCfg img) io0 c io)
    (hexit : IAm.Exit (IAm.envOf ds img) c io code) :
    ∃ m j s', Isa.run m (Am.boot img) io0 = .exited code j s' io :=
  IAm.IAm_refines_Isa g io0 c io code hsteps hexit

/-! ### Stage (2): expressions without calls -/

/-- **`C01_stage2_partial`.**  Restriction: `pureE e` (literals, names, `- ~ + - = ~= < <= > >= and
    or`, subscripts with such an index, string literals (which have no integer value); no calls).  If the reference semantics evaluates `e` to the integer
    `v`, the code `ExprCodeGen` emits for `OptimiseExpr (ConstProp e)` satisfies the triple
    `ExecA`: located anywhere in the lowered program, started by `IAm` in any machine state that
    represents the source state (`Rep`; the I/O state is the source state's), with its frame need
    inside the frame, it runs to its end with `v` in areg and the I/O state unchanged, the memory
    still represents the source state, and below the frame's top only frame slots
    `[offset, size')` of the current frame were written. -/
theorem C01_stage2_partial (K : C01s.PCtx) (wf : K.WF) (fuel : Nat) (e : X.Expr) (σ : X.St) (v : Word) (σ' : X.St)
    (hr : C01s.pureE e = true) (hev : X.eval fuel K.xc e σ = .ok (.int v) σ') :
    C01s.ExecA K (Xcmp.optExpr (C01s.annotate K.ρ e)) v σ :=
  C01s.expr_pure_correct K wf fuel e σ v σ' hr hev

/-! ### Stage (3): statements without user calls -/

/-- **`C01_stage3_partial`.**  Restriction: `okS s` (skip, stop, return e, v := e, if, while,
    sequences, the system calls `0(e)`, `1(e, s)`, `2(s)`; all expressions call-free).  Whatever
    `X.exec` gives for `s` - normal completion, a returned value, program exit with a code, with
    the I/O it performed - the code `StmtCodeGen` emits does (`ExecS`/`Out`): it reaches its end in
    a state representing the result state, or the procedure's exit label with the value in areg, or
    the exit system call with that code; the I/O log is that of the reference semantics. -/
theorem C01_stage3_partial (K : C01s.PCtx) (exitJ : Nat) (wf : K.WFS exitJ) (fuel : Nat) (s : X.Stmt) (σ : X.St)
    (hr : C01s.okS s = true) :
    C01s.ExecS K exitJ (Xcmp.optStmt (C01s.annotS K.ρ s)) σ (X.exec fuel K.xc s σ) :=
  (C01s.stmt_correct K exitJ wf fuel).1 s σ hr

/-! Non-vacuity of the restrictions: a non-trivial expression and a looping, printing, exiting
    statement are inside the fragments. -/

example : C01s.pureE (.bin .and (.bin .le (.name "i") (.num 10)) (.un .not (.bin .eq (.bin .plus (.name "g") (.num 100000)) (.un .neg (.name "k"))))) = true := by
  decide

example : C01s.okS (.seq [.assign "i" (.num 0),
    .while (.bin .ls (.name "i") (.num 3)) (.seq [.syscall 1 [.bin .plus (.num 97) (.name "i"), .num 0],
      .assign "i" (.bin .plus (.name "i") (.num 1))]),
    .ite (.bin .eq (.name "i") (.num 3)) (.syscall 0 [.name "i"]) .skip, .stop]) = true := by
  decide

/-! Non-vacuity of the hypotheses of stages (2) and (3): `Lemmas/XcmpWitness.lean` builds a concrete
    procedure context (`g := g + 1` on a global variable, with its symbol table, layout, stack
    pointer and variable locations), proves `PCtx.WFS` for it, a source state and a memory with
    `Rep`, and the premises of the triple (`genStmt = ok`, code located in the program).  The
    theorem then yields the run below. -/

example : C01s.Witness.K.WFS 4 := C01s.Witness.wf
example : C01s.Rep C01s.Witness.K C01s.Witness.σ C01s.Witness.mem := C01s.Witness.rep
example : ∃ a' b' mem',
    IAm.Steps C01s.Witness.K.env (C01s.cfg 0 0 0 C01s.Witness.mem) C01s.Witness.σ.io (C01s.cfg 4 a' b' mem') C01s.Witness.σ'.io ∧
    C01s.Rep C01s.Witness.K C01s.Witness.σ' mem' := by
  have h := C01_stage3_partial C01s.Witness.K 4 C01s.Witness.wf 10 C01s.Witness.stmt C01s.Witness.σ C01s.Witness.stmt_ok
    {} C01s.Witness.code {} 0 0 0 C01s.Witness.mem C01s.Witness.gen_ok C01s.Witness.code_at C01s.Witness.rep
    (Nat.zero_le _) (Nat.le_refl _) (fun e he => by simp [Xcmp.GS.items] at he)
  rw [C01s.Witness.exec_ok] at h
  exact h

/-! ### The peephole pass -/

/-- **`C01_peephole`.**  For any directive list `ds` with unique label names and any environment
    `env'` (layout, code map) of `peephole ds`: a run of `IAm` on `ds` - each directive at the
    address of its image in `env'` - from index 0 to the exit system call is a run on
    `peephole ds` with the same I/O and exit code. -/
theorem C01_peephole (ds : List Asm.Dir) (env' : IAm.Env) (henv : env'.ds = Xcmp.peephole ds)
    (hnd : (C01s.labelNames ds).Nodup) (mem : Mem) (io0 : IOSt) (c : IAm.Cfg) (io : IOSt) (code : Word)
    (hsteps : IAm.Steps (C01s.fakeEnv env' ds (C01s.peepSt ds)) ⟨0, 0, 0, mem⟩ io0 c io)
    (hexit : IAm.Exit (C01s.fakeEnv env' ds (C01s.peepSt ds)) c io code) :
    ∃ c', IAm.Steps env' ⟨0, 0, 0, mem⟩ io0 c' io ∧ IAm.Exit env' c' io code :=
  C01s.peep_run (by rw [henv]; exact C01s.peephole_peep ds) hnd mem io0 c io code hsteps hexit

/-! ### Whole programs: the class V1 -/

/-- **`C01_v1_partial`.**  The full C01 statement for the programs that satisfy the decidable
    predicate `C01s.v1Ok`: a single parameterless `main`, global and local `var`s, a body of
    assignments, conditionals, loops, sequences and the system calls with call-free expressions,
    whose compilation passes `C01s.v1Check`.  Every defined behaviour of the reference semantics is
    exhibited by the ISA running the bytes `xcmp` produces. -/
theorem C01_v1_partial (P : X.Program) (inp : X.Input) (n : Nat) (β : X.Behaviour) (img : Asm.Image)
    (hr : C01s.v1Ok P = true) :
    X.run P inp n = .defined β →
    Xcmp.compile P = .ok img →
    ∃ m, Exhibits (Isa.run m (Am.boot img) (Isa.IOSt.init inp.stdin inp.files)) inp β := by
  intro hrun hcomp
  obtain ⟨m, code, j, s', io, h1, h2, h3, h4⟩ := C01s.v1_whole P inp n β img hr hcomp hrun
  exact ⟨m, code, j, s', io, h1, h2, h3, h4⟩

/-- `var g; var n; proc main() is var i; { g := 65; i := 0; while i < 3 do { 1(g + i, 0); i := i + 1 };
    n := 100000; if g + n = 100065 then 0(g + 1) else skip }` -/
def demoV1 : X.Program :=
  { globals := [.var "g", .var "n"],
    procs := [{ isFunc := false, name := "main", formals := [], locals := [.var "i"],
                body := .seq [.assign "g" (.num 65), .assign "i" (.num 0),
                  .while (.bin .ls (.name "i") (.num 3))
                    (.seq [.syscall 1 [.bin .plus (.name "g") (.name "i"), .num 0],
                           .assign "i" (.bin .plus (.name "i") (.num 1))]),
                  .assign "n" (.num 100000),
                  .ite (.bin .eq (.bin .plus (.name "g") (.name "n")) (.num 100065))
                    (.syscall 0 [.bin .plus (.name "g") (.num 1)]) .skip] }] }

def behaviourIs (r : X.Result) (exit : Nat) (nevents : Nat) : Bool :=
  match r with
  | .defined β => β.exit.toNat == exit && β.events.length == nevents
  | _ => false

/-! Non-vacuity: `demoV1` is in the class, has a defined behaviour (three characters written, exit
    value 66) and compiles; so the theorem gives an ISA run on its image with that behaviour. -/
example : C01s.v1Ok demoV1 = true := by decide +kernel
example : behaviourIs (X.run demoV1 ⟨[], fun _ => []⟩ 200) 66 3 = true := by decide +kernel
example : ∃ img, Xcmp.compile demoV1 = .ok img := by
  cases h : Xcmp.compile demoV1 with
  | ok img => exact ⟨img, rfl⟩
  | error e =>
    have : (match Xcmp.compile demoV1 with | .ok _ => true | .error _ => false) = true := by decide +kernel
    rw [h] at this
    simp at this

/-! ### Stage (4): user procedures and functions -/

/-- **`C01_stage4_partial`.**  For a program context `G` with `G.OK` (established by the check
    `v2Check`/`v3Check`), every fuel: (a) every statement of the stage-4 fragment (`okS5 G.pk`: stage 3 plus
    `p(args)`, `v := f(args)`, `return f(args)` with call-free actuals), compiled inside ANY
    procedure of the program and run in ANY activation within the stack budget, does what
    `X.exec` says (triple `ExecS`); (b) every procedure satisfies `CallSpec`: called with the link
    address in areg and its actuals in the caller's outgoing area, it returns to the link label
    with the caller's frame intact, the stack pointer restored, a function's value in `sp[1]` and
    the global state of the reference semantics in memory - or it terminates the program with the
    right exit code; the I/O is that of the reference semantics. -/
theorem C01_stage4_partial (G : C01s.GCtx) (ok : G.OK) (fuel : Nat) :
    C01s.StmtSpec G fuel ∧ C01s.CallSpec G fuel :=
  ⟨(C01s.all_correct ok fuel).1, (C01s.all_correct ok fuel).2.2⟩

/-- **`C01_v2_partial`.**  The full C01 statement for the programs that satisfy the decidable
    predicate `C01s.v2Ok`: procedures and functions with `val` formals (recursion allowed), global
    `val`s, `var`s and arrays of constant length, local `var`s, `val` and `array` formals, bodies in the stage-4 fragment (with
    subscripts and assignments to array elements), whose compilation passes `C01s.v2Check`. -/
theorem C01_v2_partial (P : X.Program) (inp : X.Input) (n : Nat) (β : X.Behaviour) (img : Asm.Image)
    (hr : C01s.v2Ok P = true) :
    X.run P inp n = .defined β →
    Xcmp.compile P = .ok img →
    ∃ m, Exhibits (Isa.run m (Am.boot img) (Isa.IOSt.init inp.stdin inp.files)) inp β := by
  intro hrun hcomp
  obtain ⟨m, code, j, s', io, h1, h2, h3, h4⟩ := C01s.v2_whole P inp n β img hr hcomp hrun
  exact ⟨m, code, j, s', io, h1, h2, h3, h4⟩

/-- `var g;
     func sum(val n) is var t; if n = 0 then return 1 else { t := sum(n - 1); return t + n }
     proc put2(val a, val b) is { 1(a, 0); 1(b, 0) }
     proc main() is var r; { r := sum(4); g := r + 55; put2(g, g + 1); put2(sum(2), 66); 0(r) }` -/
def demoV2 : X.Program :=
  { globals := [.var "g"],
    procs := [
      { isFunc := true, name := "sum", formals := [.val "n"], locals := [.var "t"],
        body := .ite (.bin .eq (.name "n") (.num 0)) (.ret (.num 1)) (.seq [.assign "t" (.call "sum" [.bin .minus (.name "n") (.num 1)]), .ret (.bin .plus (.name "t") (.name "n"))]) },
      { isFunc := false, name := "put2", formals := [.val "a", .val "b"], locals := [],
        body := .seq [.syscall 1 [.name "a", .num 0], .syscall 1 [.name "b", .num 0]] },
      { isFunc := false, name := "main", formals := [], locals := [.var "r"],
        body := .seq [.assign "r" (.call "sum" [.num 4]), .assign "g" (.bin .plus (.name "r") (.num 55)), .call "put2" [.name "g", .bin .plus (.name "g") (.num 1)], .call "put2" [.call "sum" [.num 2], .num 66], .syscall 0 [.name "r"]] }] }

/-! Non-vacuity: `demoV2` (a recursive function, a two-parameter procedure, a global) is in the
    class - with a call as the first actual of a call -, has a defined behaviour (four characters
    written, exit value 11) and compiles. -/
example : C01s.v2Ok demoV2 = true := by decide +kernel
example : behaviourIs (X.run demoV2 ⟨[], fun _ => []⟩ 1000) 11 4 = true := by decide +kernel
example : ∃ img, Xcmp.compile demoV2 = .ok img := by
  cases h : Xcmp.compile demoV2 with
  | ok img => exact ⟨img, rfl⟩
  | error e =>
    have : (match Xcmp.compile demoV2 with | .ok _ => true | .error _ => false) = true := by decide +kernel
    rw [h] at this
    simp at this

/-- **`C01_v3_partial`.**  The full C01 statement for the programs that satisfy the decidable
    predicate `C01s.v3Ok`: the class of `C01_v2_partial`, and in addition calls of PURE functions
    (functions outside `X.impureProcs P`), with call-free actuals, anywhere in the operands of
    right-hand sides, `return` values and the conditions of `if` and `while`
    (`fib(n - 1) + fib(n - 2)`, `while r < f(5) + 1 do ..`).  xcmp evaluates the right operand of a
    binary operator first when it needs areg, the reference semantics the left one; for pure
    callees both orders give the same values and differ in the step counter and the call log only,
    which the representation invariant ignores.  Side conditions: `C01s.v3Check` (= `v2Check` on
    the wider fragment, and the impure set is closed under the impurity analysis, `pureOkB`). -/
theorem C01_v3_partial (P : X.Program) (inp : X.Input) (n : Nat) (β : X.Behaviour) (img : Asm.Image)
    (hr : C01s.v3Ok P = true) :
    X.run P inp n = .defined β →
    Xcmp.compile P = .ok img →
    ∃ m, Exhibits (Isa.run m (Am.boot img) (Isa.IOSt.init inp.stdin inp.files)) inp β := by
  intro hrun hcomp
  obtain ⟨m, code, j, s', io, h1, h2, h3, h4⟩ := C01s.v3_whole P inp n β img hr hcomp hrun
  exact ⟨m, code, j, s', io, h1, h2, h3, h4⟩

/-- **`C01_string_packing`.**  Packed string literals, for EVERY byte string of fewer than 256 bytes
    (bytes above 0x7f included): the packing loop of `genString` (running byte position, accumulator,
    flush every fourth position and at the last character - `Xcmp.packString`) yields exactly the
    words the reference semantics gives the literal (`X.packString`: length byte, then the characters,
    four per word, little endian, zero filled); and those are the DATA words `genString` appends to
    the pool behind the literal's label.  (The whole-program theorems compare the pool of each program
    with `X.packString` reflectively, `strCheck`; this is the unconditional statement.) -/
theorem C01_string_packing (bytes : List Byte) (h : bytes.length < 256) :
    X.packString bytes = .ok (Xcmp.packString bytes) ∧
    ∀ (reg : Xcmp.Reg) (gs : Xcmp.GS) (code : Xcmp.Code) (gs' : Xcmp.GS), Xcmp.genString reg bytes gs = .ok (code, gs') →
      gs'.data = gs.data ++ (Asm.Dir.label .plain ("_string" ++ toString gs.stringCount) ::
        (Xcmp.packString bytes).map fun (w : Word) => Asm.Dir.data w.toInt) := by
  refine ⟨Xcmp.packString_eq bytes h, ?_⟩
  intro reg gs code gs' hg
  unfold Xcmp.genString at hg
  cases reg <;> (simp only [bind, StateT.bind, get, getThe, MonadStateOf.get, StateT.get, set, StateT.set, pure, StateT.pure,
    Except.bind, Except.pure] at hg; injection hg with hg; injection hg with _ hg; subst hg; rfl)

/-- **`C01_v3_on_hexsim`.**  The C01 statement as the property words it - "running the binary that
    xcmp emits on the Hex simulator" - for the class `v3Ok`, over the MODELS of the three tools
    joined end to end: the file the compiler model writes (`Asm.fileBytes img`: length word, image,
    symbol table), read by the model of hexsim's `load()` into a processor constructed with ANY
    content of its indeterminate members (`Sim.Proc.mk' j`), run by the model of hexsim's `run()`:
    it returns the exit value of the reference semantics after exactly its I/O events, and the
    symbol table it loaded is the assembler's (`Sim.loadedSymbols img.debug`).  Composition of
    `C01_v3_partial`, the loader round trip `Sim.loadParts_fileBytes` and `C02_run`.
    Side conditions on the image (decidable; evaluated per program by the compiler-model driver,
    field `H=`): fewer than 2^31 symbols, no NUL byte inside a name. -/
theorem C01_v3_on_hexsim (P : X.Program) (inp : X.Input) (n : Nat) (β : X.Behaviour) (img : Asm.Image) (j : Sim.Junk)
    (hr : C01s.v3Ok P = true) (hrun : X.run P inp n = .defined β) (hcomp : Xcmp.compile P = .ok img)
    (hn : img.debug.length < 2 ^ 31) (hnul : ∀ e ∈ img.debug, (0 : Byte) ∉ Sim.nameBytes e.1) :
    ∃ p m code q, Sim.load (Sim.Proc.mk' j (Isa.IOSt.init inp.stdin inp.files)) (Asm.fileBytes img) = some p ∧
      p.debugInfo = Sim.loadedSymbols img.debug ∧
      Sim.run m p = .returned code q ∧ code = β.exit ∧ q.io.log.reverse = β.events ∧
      inp.stdin.length - q.io.stdin.length = β.stdinConsumed :=
  C01s.v3_on_hexsim P inp n β img j hr hcomp hrun hn hnul

/-- `var g;
     func fib(val n) is if n < 2 then return n else return fib(n - 1) + fib(n - 2)
     proc main() is var r;
     { r := fib(6) - fib(4); if ~(fib(r) = 5) then r := 0 else skip;
       while r < fib(5) + 1 do r := r + 1; g := r; 1(g + 48, 0); 0(r) }` -/
def demoV3 : X.Program :=
  { globals := [.var "g"],
    procs := [
      { isFunc := true, name := "fib", formals := [.val "n"], locals := [],
        body := .ite (.bin .ls (.name "n") (.num 2)) (.ret (.name "n"))
                  (.ret (.bin .plus (.call "fib" [.bin .minus (.name "n") (.num 1)]) (.call "fib" [.bin .minus (.name "n") (.num 2)]))) },
      { isFunc := false, name := "main", formals := [], locals := [.var "r"],
        body := .seq [.assign "r" (.bin .minus (.call "fib" [.num 6]) (.call "fib" [.num 4])),
                      .ite (.un .not (.bin .eq (.call "fib" [.name "r"]) (.num 5))) (.assign "r" (.num 0)) .skip,
                      .while (.bin .ls (.name "r") (.bin .plus (.call "fib" [.num 5]) (.num 1))) (.assign "r" (.bin .plus (.name "r") (.num 1))),
                      .assign "g" (.name "r"),
                      .syscall 1 [.bin .plus (.name "g") (.num 48), .num 0], .syscall 0 [.name "r"]] }] }

/-! Non-vacuity: `demoV3` (two calls as the operands of `+` and `-`, calls in the conditions of
    `if` and `while`) is in the class V3 and not in V2, has a defined behaviour (one character
    written, exit value 6) and compiles. -/
example : C01s.v3Ok demoV3 = true := by decide +kernel
example : C01s.v2Ok demoV3 = false := by decide +kernel
example : behaviourIs (X.run demoV3 ⟨[], fun _ => []⟩ 2000) 6 1 = true := by decide +kernel
example : ∃ img, Xcmp.compile demoV3 = .ok img := by
  cases h : Xcmp.compile demoV3 with
  | ok img => exact ⟨img, rfl⟩
  | error e =>
    have : (match Xcmp.compile demoV3 with | .ok _ => true | .error _ => false) = true := by decide +kernel
    rw [h] at this
    simp at this

/-- `val put = 1; val len = 8; var g; array a[len]; array b[4];
     proc fill(array t, val n) is var i; { i := 0; while i < n do { t[i] := i + 3; i := i + 1 } }
     func sum(array t, val n) is var i; var s; { i := 0; s := 0; while i < n do { s := s + t[i]; i := i + 1 }; return s }
     proc both(array x, array y) is { fill(x, len); fill(y, 4) }
     proc main() is var r; { both(a, b); b[2] := a[3] + 1; r := sum(a, len) - sum(b, 4); g := r; put(b[2] + 48, 0); 0(r) }` -/
def demoArr : X.Program :=
  { globals := [.val "put" (.num 1), .val "len" (.num 8), .var "g", .array "a" (.name "len"), .array "b" (.num 4)],
    procs := [
      { isFunc := false, name := "fill", formals := [.array "t", .val "n"], locals := [.var "i"],
        body := .seq [.assign "i" (.num 0),
                      .while (.bin .ls (.name "i") (.name "n"))
                        (.seq [.assignSub "t" (.name "i") (.bin .plus (.name "i") (.num 3)), .assign "i" (.bin .plus (.name "i") (.num 1))])] },
      { isFunc := true, name := "sum", formals := [.array "t", .val "n"], locals := [.var "i", .var "s"],
        body := .seq [.assign "i" (.num 0), .assign "s" (.num 0),
                      .while (.bin .ls (.name "i") (.name "n"))
                        (.seq [.assign "s" (.bin .plus (.name "s") (.sub "t" (.name "i"))), .assign "i" (.bin .plus (.name "i") (.num 1))]),
                      .ret (.name "s")] },
      { isFunc := false, name := "both", formals := [.array "x", .array "y"], locals := [],
        body := .seq [.call "fill" [.name "x", .name "len"], .call "fill" [.name "y", .num 4]] },
      { isFunc := false, name := "main", formals := [], locals := [.var "r"],
        body := .seq [.call "both" [.name "a", .name "b"],
                      .assignSub "b" (.num 2) (.bin .plus (.sub "a" (.num 3)) (.num 1)),
                      .assign "r" (.bin .minus (.call "sum" [.name "a", .name "len"]) (.call "sum" [.name "b", .num 4])),
                      .assign "g" (.name "r"),
                      .call "put" [.bin .plus (.sub "b" (.num 2)) (.num 48), .num 0], .syscall 0 [.name "r"]] }] }

/-! Non-vacuity for arrays: `demoArr` (two global arrays passed as array formals - also two at
    once and passed on -, a procedure that fills its array formal, a pure function that sums it,
    constant and computed subscripts, two calls as the operands of `-`; global constants: an array
    length, an actual, and the system call `put` called through a constant) is in the class V3, has
    a defined behaviour (one character written, exit value 32) and compiles. -/
example : C01s.v3Ok demoArr = true := by decide +kernel
example : behaviourIs (X.run demoArr ⟨[], fun _ => []⟩ 5000) 32 1 = true := by decide +kernel
example : ∃ img, Xcmp.compile demoArr = .ok img := by
  cases h : Xcmp.compile demoArr with
  | ok img => exact ⟨img, rfl⟩
  | error e =>
    have : (match Xcmp.compile demoArr with | .ok _ => true | .error _ => false) = true := by decide +kernel
    rw [h] at this
    simp at this

/-- `val put = 1; var g;
     func at(array s, val i) is return s[i]
     proc show(array s) is var k; { k := at(s, 0); put(k, 0); put(s[1], 0) }
     proc relay(array s) is show(s)
     proc main() is { show("ABCD"); relay("ABCD"); g := at("hello", 1); 0(g) }` -/
def demoStr : X.Program :=
  { globals := [.val "put" (.num 1), .var "g"],
    procs := [
      { isFunc := true, name := "at", formals := [.array "s", .val "i"], locals := [],
        body := .ret (.sub "s" (.name "i")) },
      { isFunc := false, name := "show", formals := [.array "s"], locals := [.var "k"],
        body := .seq [.assign "k" (.call "at" [.name "s", .num 0]), .call "put" [.name "k", .num 0],
                      .call "put" [.sub "s" (.num 1), .num 0]] },
      { isFunc := false, name := "relay", formals := [.array "s"], locals := [],
        body := .call "show" [.name "s"] },
      { isFunc := false, name := "main", formals := [], locals := [],
        body := .seq [.call "show" [.str [65, 66, 67, 68]], .call "relay" [.str [65, 66, 67, 68]],
                      .assign "g" (.call "at" [.str [104, 101, 108, 108, 111], .num 1]),
                      .syscall 0 [.name "g"]] }] }

/-! Non-vacuity for string literals: `demoStr` (string literals as actuals - the same text twice, so
    two entries of the string pool -, an array formal bound to a literal and passed on, constant and
    computed subscripts of it, a function called with a literal) is in the classes V2 and V3, has a
    defined behaviour (four characters written, exit value 28524 = the second packed word of
    "hello") and compiles. -/
example : C01s.v2Ok demoStr = true := by decide +kernel
example : C01s.v3Ok demoStr = true := by decide +kernel
example : behaviourIs (X.run demoStr ⟨[], fun _ => []⟩ 5000) 28524 4 = true := by decide +kernel
example : ∃ img, Xcmp.compile demoStr = .ok img := by
  cases h : Xcmp.compile demoStr with
  | ok img => exact ⟨img, rfl⟩
  | error e =>
    have : (match Xcmp.compile demoStr with | .ok _ => true | .error _ => false) = true := by decide +kernel
    rw [h] at this
    simp at this

/-- `val put = 1; val k = 5; var g; var n;
     func next(val d) is { n := n + d; if n > 20 then 0(n) else skip; put(n + 48, 0); return n }
     proc main() is var x;
     { n := 0; x := next(2) + 1; g := k - (-next(x));
       if 10 <= next(1) + k then x := 100 else skip;
       while next(3) < 1000 do g := g + 1;
       0(g + x) }` -/
def demoIp : X.Program :=
  { globals := [.val "put" (.num 1), .val "k" (.num 5), .var "g", .var "n"],
    procs := [
      { isFunc := true, name := "next", formals := [.val "d"], locals := [],
        body := .seq [.assign "n" (.bin .plus (.name "n") (.name "d")),
                      .ite (.bin .gr (.name "n") (.num 20)) (.syscall 0 [.name "n"]) .skip,
                      .call "put" [.bin .plus (.name "n") (.num 48), .num 0],
                      .ret (.name "n")] },
      { isFunc := false, name := "main", formals := [], locals := [.var "x"],
        body := .seq [.assign "n" (.num 0),
                      .assign "x" (.bin .plus (.call "next" [.num 2]) (.num 1)),
                      .assign "g" (.bin .minus (.name "k") (.un .neg (.call "next" [.name "x"]))),
                      .ite (.bin .le (.num 10) (.bin .plus (.call "next" [.num 1]) (.name "k"))) (.assign "x" (.num 100)) .skip,
                      .while (.bin .ls (.call "next" [.num 3]) (.num 1000)) (.assign "g" (.bin .plus (.name "g") (.num 1))),
                      .syscall 0 [.bin .plus (.name "g") (.name "x")]] }] }

/-! Non-vacuity for a call of an IMPURE function in an operand: `demoIp` (`next` changes a global,
    writes a character and may terminate the program; it is called under `+ - <= <` and monadic `-`
    next to constants, in right-hand sides, in the condition of an `if` and in the condition of a
    `while`, where the program finally terminates INSIDE the call) is in the classes V2 and V3, has
    a defined behaviour (seven characters written, exit value 21) and compiles. -/
example : C01s.v2Ok demoIp = true := by decide +kernel
example : behaviourIs (X.run demoIp ⟨[], fun _ => []⟩ 5000) 21 7 = true := by decide +kernel
example : ∃ img, Xcmp.compile demoIp = .ok img := by
  cases h : Xcmp.compile demoIp with
  | ok img => exact ⟨img, rfl⟩
  | error e =>
    have : (match Xcmp.compile demoIp with | .ok _ => true | .error _ => false) = true := by decide +kernel
    rw [h] at this
    simp at this

/-- `val put = 1; val get = 2; var c; var n;
     proc main() is
     { n := 0; c := get(0);
       while c ~= 10 do { put(c, 0); n := n + 1; c := get(0) };
       if 2(0) = 67 - 1 then n := n + 100 else skip;
       while 255 ~= get(0) do n := n + 1000;
       0(n) }` -/
def demoIn : X.Program :=
  { globals := [.val "put" (.num 1), .val "get" (.num 2), .var "c", .var "n"],
    procs := [
      { isFunc := false, name := "main", formals := [], locals := [],
        body := .seq [.assign "n" (.num 0), .assign "c" (.call "get" [.num 0]),
                      .while (.bin .ne (.name "c") (.num 10))
                        (.seq [.call "put" [.name "c", .num 0], .assign "n" (.bin .plus (.name "n") (.num 1)),
                               .assign "c" (.call "get" [.num 0])]),
                      .ite (.bin .eq (.syscall 2 [.num 0]) (.bin .minus (.num 67) (.num 1)))
                        (.assign "n" (.bin .plus (.name "n") (.num 100))) .skip,
                      .while (.bin .ne (.num 255) (.call "get" [.num 0])) (.assign "n" (.bin .plus (.name "n") (.num 1000))),
                      .syscall 0 [.name "n"]] }] }

/-! Non-vacuity for INPUT: `demoIn` (system call 2 through the constant `get` and as `2(0)`, as a
    whole right-hand side and under `=` / `~=` next to a constant in the conditions of `if` and
    `while`) is in the class V2; on the input "hi\nB" followed by two more bytes it echoes the
    first line, reads to the end of the input (six bytes consumed, then the end-of-input value)
    and exits with 2102. -/
example : C01s.v2Ok demoIn = true := by decide +kernel
example : (match X.run demoIn ⟨[104, 105, 10, 66, 1, 2], fun _ => []⟩ 5000 with
    | .defined β => β.exit == 2102 && β.events.length == 9 && β.stdinConsumed == 6
    | _ => false) = true := by decide +kernel
example : ∃ img, Xcmp.compile demoIn = .ok img := by
  cases h : Xcmp.compile demoIn with
  | ok img => exact ⟨img, rfl⟩
  | error e =>
    have : (match Xcmp.compile demoIn with | .ok _ => true | .error _ => false) = true := by decide +kernel
    rw [h] at this
    simp at this

/-- `val put = 1; val get = 2; var n;
     func inc(val d) is { n := n + d; return n }
     proc show(val a, val c) is put(c, a)
     proc main() is
     { n := 0; put(get(0), 0); show(0, inc(inc(3) + 1) - 2); put(65 + inc(get(0)), 0); 0(inc(inc(inc(1)))) }` -/
def demoNest : X.Program :=
  { globals := [.val "put" (.num 1), .val "get" (.num 2), .var "n"],
    procs := [
      { isFunc := true, name := "inc", formals := [.val "d"], locals := [],
        body := .seq [.assign "n" (.bin .plus (.name "n") (.name "d")), .ret (.name "n")] },
      { isFunc := false, name := "show", formals := [.val "a", .val "c"], locals := [],
        body := .call "put" [.name "c", .name "a"] },
      { isFunc := false, name := "main", formals := [], locals := [],
        body := .seq [.assign "n" (.num 0),
                      .call "put" [.call "get" [.num 0], .num 0],
                      .call "show" [.num 0, .bin .minus (.call "inc" [.bin .plus (.call "inc" [.num 3]) (.num 1)]) (.num 2)],
                      .call "put" [.bin .plus (.num 65) (.call "inc" [.call "get" [.num 0]]), .num 0],
                      .syscall 0 [.call "inc" [.call "inc" [.call "inc" [.num 1]]]]] }] }

/-! Non-vacuity for calls inside actuals, of any callee and nested: `demoNest` (a system call as the
    actual of a system call; a call with effects - nested, under operators - as the SECOND actual
    of a procedure next to a constant; calls nested three deep as the actual of `exit`) is in the
    class V2; on the input "A7" it echoes `A`, writes two more bytes and exits with 252. -/
example : C01s.v2Ok demoNest = true := by decide +kernel
example : (match X.run demoNest ⟨[65, 55], fun _ => []⟩ 5000 with
    | .defined β => β.exit == 252 && β.events.length == 5 && β.stdinConsumed == 2
    | _ => false) = true := by decide +kernel
example : ∃ img, Xcmp.compile demoNest = .ok img := by
  cases h : Xcmp.compile demoNest with
  | ok img => exact ⟨img, rfl⟩
  | error e =>
    have : (match Xcmp.compile demoNest with | .ok _ => true | .error _ => false) = true := by decide +kernel
    rw [h] at this
    simp at this

/-- `var n; array a[8];
     func next(val d) is { n := n + d; return n }
     func sq(val x) is var r; var k; { r := 0; k := 0; while k < x do { r := r + x; k := k + 1 }; return r }
     proc main() is var i;
     { n := 0; i := 3; a[i] := sq(i); a[next(1)] := 5; a[2] := next(3) + 1; a[sq(2)] := a[i] - sq(1);
       0((a[1] + a[2]) + (a[3] + a[4])) }` -/
def demoAs : X.Program :=
  { globals := [.var "n", .array "a" (.num 8)],
    procs := [
      { isFunc := true, name := "next", formals := [.val "d"], locals := [],
        body := .seq [.assign "n" (.bin .plus (.name "n") (.name "d")), .ret (.name "n")] },
      { isFunc := true, name := "sq", formals := [.val "x"], locals := [.var "r", .var "k"],
        body := .seq [.assign "r" (.num 0), .assign "k" (.num 0),
                      .while (.bin .ls (.name "k") (.name "x"))
                        (.seq [.assign "r" (.bin .plus (.name "r") (.name "x")), .assign "k" (.bin .plus (.name "k") (.num 1))]),
                      .ret (.name "r")] },
      { isFunc := false, name := "main", formals := [], locals := [.var "i"],
        body := .seq [.assign "n" (.num 0), .assign "i" (.num 3),
                      .assignSub "a" (.name "i") (.call "sq" [.name "i"]),
                      .assignSub "a" (.call "next" [.num 1]) (.num 5),
                      .assignSub "a" (.num 2) (.bin .plus (.call "next" [.num 3]) (.num 1)),
                      .assignSub "a" (.call "sq" [.num 2]) (.bin .minus (.sub "a" (.name "i")) (.call "sq" [.num 1])),
                      .syscall 0 [.bin .plus (.bin .plus (.sub "a" (.num 1)) (.sub "a" (.num 2)))
                                             (.bin .plus (.sub "a" (.num 3)) (.sub "a" (.num 4)))]] }] }

/-! Non-vacuity for calls in `a[i] := e`: `demoAs` (a pure call as the value and as the subscript,
    next to variables; a call with effects as the subscript next to a constant value, and as the
    value next to a constant subscript) is in the class V3, has a defined behaviour (exit value 27)
    and compiles. -/
example : C01s.v3Ok demoAs = true := by decide +kernel
example : behaviourIs (X.run demoAs ⟨[], fun _ => []⟩ 5000) 27 0 = true := by decide +kernel
example : ∃ img, Xcmp.compile demoAs = .ok img := by
  cases h : Xcmp.compile demoAs with
  | ok img => exact ⟨img, rfl⟩
  | error e =>
    have : (match Xcmp.compile demoAs with | .ok _ => true | .error _ => false) = true := by decide +kernel
    rw [h] at this
    simp at this

end Hex.C01
