import HexVerif.Lemmas.XcmpAmImage
import HexVerif.Xcmp.Compile
import HexVerif.X.Sem
/-!
  # C01 - xcmp preserves X source semantics

  FULL STATEMENT (not yet discharged; the proof is staged, DESIGN.md §6 C01 and Appendix A):

      theorem C01 (P : X.Program) (inp : X.Input) (n : Nat) (β : X.Behaviour) (img : Asm.Image) :
          X.run P inp n = .defined β →                -- includes `Supported P` (`checkProgram`, `checkProcs`)
          Xcmp.compile P = .ok img →
          ∃ m, Exhibits (Isa.run m (Am.boot img) (Isa.IOSt.init inp.stdin inp.files)) inp β

  where `Exhibits r inp β` says that the ISA run `r` exited with `β.exit` after producing exactly
  the I/O events `β.events` and consuming `β.stdinConsumed` bytes of standard input.

  The compiler model `Xcmp.compile` (lean/HexVerif/Xcmp/*) is tied to xcmp.hpp on every run by
  runner/c01model.py (byte-identical output of every stage).  Proof architecture:

      X.Sem  --(stages 2,3,4)-->  Am on the lowered directives  --(peephole)-->  Am on the final
      directives  --(stage 1: `Am_refines_Isa`)-->  Isa on the bytes.

  Discharged here: stage (1), for EVERY directive list the assembler accepts (so in particular
  for every output of the compiler), with no restriction on the program.
-/
namespace Hex.C01
open Hex Hex.Isa

/-- The ISA run `r` shows behaviour `β`. -/
def Exhibits (r : Isa.RunResult) (inp : X.Input) (β : X.Behaviour) : Prop :=
  ∃ code steps s io, r = .exited code steps s io ∧ code = β.exit ∧ io.log.reverse = β.events ∧
    inp.stdin.length - io.stdin.length = β.stdinConsumed

/-- **Stage (1) of C01, `Am_refines_Isa`.**  Let `ds` be any directive list (in particular the
    output of `Xcmp.compileDirs`) that the assembler accepts with image `img`, small enough to fit
    the memory.  Then from the boot state every run of the abstract machine `Am` - which executes
    one directive per step with its full 32-bit operand, labels resolved through the assembler's
    layout, and faults when a store hits an instruction - is reproduced by the ISA on the bytes:
    same exit code, same final registers and memory, same I/O log (and likewise for runs that end
    in an instruction the ISA leaves undefined, and for unfinished runs). -/
theorem Am_refines_Isa (ds : List Asm.Dir) (img : Asm.Image)
    (hp : Asm.ParsedOk ds) (hn : ds.length < 2 ^ 26)
    (hasm : Asm.assemble (Xcmp.withLoc ds) = .ok (some img))
    (hfit : img.bytes.length ≤ 4 * memWords)
    (fuel : Nat) (io : IOSt) :
    Am.Simulates (Am.run (Am.ofImage ds img) fuel (Am.boot img) io) (Am.boot img) io := by
  apply Am.run_refines
  · exact Am.assemble_loaded ds img _ hp hn hasm (Am.boot_loaded img.bytes hfit)
  · rfl

/-- Corollary in the shape of C01's conclusion: an `Am` run that exits is an ISA run that exits
    with the same code, final state and I/O. -/
theorem Am_refines_Isa_exit (ds : List Asm.Dir) (img : Asm.Image)
    (hp : Asm.ParsedOk ds) (hn : ds.length < 2 ^ 26)
    (hasm : Asm.assemble (Xcmp.withLoc ds) = .ok (some img))
    (hfit : img.bytes.length ≤ 4 * memWords)
    (fuel : Nat) (io : IOSt) (c : Word) (k : Nat) (s' : St) (io' : IOSt)
    (hrun : Am.run (Am.ofImage ds img) fuel (Am.boot img) io = .exited c k s' io') :
    ∃ m j, Isa.run m (Am.boot img) io = .exited c j s' io' := by
  have := Am_refines_Isa ds img hp hn hasm hfit fuel io
  rw [hrun] at this
  exact this

/-! ### Non-vacuity: a concrete program that the assembler accepts, whose `Am` run exits -/

/-- `BR start; DATA 100; start: LDBM 1; LDAC 7; STAI 2; LDAC 0; OPR SVC` - exits with 7. -/
def demo : List Asm.Dir :=
  [.ref 0x9 "start" true, .data 100, .label .plain "start", .imm 0x1 1, .imm 0x3 7, .imm 0x8 2, .imm 0x3 0, .opr 3]

def demoImg : Asm.Image :=
  match Asm.assemble (Xcmp.withLoc demo) with
  | .ok (some img) => img
  | _ => { bytes := [], sizeBytes := 0, debug := [], resolved := ⟨[], [], [], [], 0⟩ }

def exitCode? : Am.RunResult → Option Word
  | .exited c _ _ _ => some c
  | _ => none

def isOk : Except Asm.Diag (Option Asm.Image) → Bool
  | .ok (some _) => true
  | _ => false

theorem demo_assembles : Asm.assemble (Xcmp.withLoc demo) = .ok (some demoImg) := by
  have h : isOk (Asm.assemble (Xcmp.withLoc demo)) = true := by decide +kernel
  unfold demoImg
  cases h' : Asm.assemble (Xcmp.withLoc demo) with
  | error e => rw [h'] at h; simp [isOk] at h
  | ok o =>
    cases o with
    | none => rw [h'] at h; simp [isOk] at h
    | some img => rfl

example : Asm.ParsedOk demo := by simp [demo, Asm.ParsedOk, Asm.InInt32]
example : demoImg.bytes.length ≤ 4 * memWords := by decide +kernel
example : exitCode? (Am.run (Am.ofImage demo demoImg) 10 (Am.boot demoImg) (IOSt.init [])) = some 7 := by
  decide +kernel

end Hex.C01
