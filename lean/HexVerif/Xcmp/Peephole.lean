import HexVerif.Xcmp.Lower
/-!
  Model of xcmp, part 6: `OptimiseDirectives` (xcmp.hpp 2972-3052), the peephole pass over the
  lowered directive list:

    BR l; l                          ->  l
    STAM x; LDAM x                   ->  STAM x               (immediate operands)
    LDBM 1; STAI x; LDAM 1; LDAI x   ->  LDBM 1; STAI x       (immediate x)

  `Directive::getValue()` of a label reference is its `labelValue`, which is 0 until the
  assembler has run; so a reference never compares equal to 1.  The C++ indexes `instrs[i+k]`
  without a bounds check after the token of `instrs[i]` matched; the model treats a window that
  runs off the end as "no match" (the list always ends in `OPR BRB` or `OPR SVC`).
-/
namespace Hex.Xcmp
open Hex.Asm (Dir LabelKind)

/-- `Directive::getValue()` before assembly. -/
def dirValue : Dir → Int
  | .imm _ v => v
  | .data v => v
  | .opr k => k
  | .ref _ _ _ => 0
  | .label _ _ => 0

def dirIsLabelOperand : Dir → Bool
  | .ref _ _ _ => true
  | _ => false

/-- `getToken() == tok` for the twelve operand-taking opcodes. -/
def dirOpc : Dir → Option Nat
  | .imm o _ => some o
  | .ref o _ _ => some o
  | _ => none

def matchBranchZero : List Dir → Bool
  | .ref 0x9 l _ :: .label .plain l' :: _ => l = l'
  | _ => false

def matchStoreThenLoad : List Dir → Bool
  | d0 :: d1 :: _ =>
    dirOpc d0 = some 0x2 ∧ dirOpc d1 = some 0x0 ∧ !dirIsLabelOperand d0 ∧ !dirIsLabelOperand d1 ∧
      dirValue d0 = dirValue d1
  | _ => false

def matchIndexStoreThenLoad : List Dir → Bool
  | d0 :: d1 :: d2 :: d3 :: _ =>
    dirOpc d0 = some 0x1 ∧ dirOpc d1 = some 0x8 ∧ dirOpc d2 = some 0x0 ∧ dirOpc d3 = some 0x6 ∧
      dirValue d0 = 1 ∧ dirValue d2 = 1 ∧ !dirIsLabelOperand d1 ∧ !dirIsLabelOperand d3 ∧
      dirValue d1 = dirValue d3
  | _ => false

/-- The loop of the `OptimiseDirectives` constructor (`fuel` = number of directives left). -/
def peepholeGo : Nat → List Dir → List Dir
  | 0, _ => []
  | _, [] => []
  | fuel + 1, d :: rest =>
    if matchBranchZero (d :: rest) then
      match rest with
      | l :: rest' => l :: peepholeGo fuel rest'
      | [] => [d]
    else if matchStoreThenLoad (d :: rest) then
      d :: peepholeGo fuel (rest.drop 1)
    else if matchIndexStoreThenLoad (d :: rest) then
      d :: (rest.take 1 ++ peepholeGo fuel (rest.drop 3))
    else d :: peepholeGo fuel rest

def peephole (ds : List Dir) : List Dir := peepholeGo ds.length ds

end Hex.Xcmp
