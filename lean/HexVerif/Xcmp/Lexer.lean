import HexVerif.Basic
/-!
  xcmp::Lexer (xcmp.hpp 215-492) as a total function from the source bytes to the sequence of
  results `getNextToken()` would produce: tokens, each with the lexer fields the parser reads after
  it (`identifier`, `value`, `string`, and `getLocation()`), ending in the first lexical diagnostic
  if there is one.

  The C++ lexer pulls characters on demand with a one-character look-ahead (`lastChar`); the same
  automaton here consumes the byte list structurally, one byte per step, so termination is by
  construction.  Quirks kept as they are in the code:
  * a byte 0xFF compares equal to `EOF` (the `char` -1): it yields an END_OF_FILE token wherever it
    stands, ends a string (diagnostic) and a comment, and lexing CONTINUES after it;
  * after the real end of input every further `getNextToken()` yields END_OF_FILE again and
    `currentCharNumber` keeps counting (`afterEnd`);
  * `#` swallows every following letter or digit and hands them to `strtoul(.., 16)`, which accepts an
    optional `0x` prefix and stops at the first non-hex character; decimal and hex literals saturate at
    2^64-1 and are then truncated to 32 bits;
  * a character constant is a `char` converted to `unsigned`: bytes >= 0x80 are sign-extended;
  * `currentCharNumber` counts `readChar()` calls since the last newline skipped as white space or
    ending a comment (a newline inside a string does not reset it).
  `isspace/isalpha/isalnum/isdigit` are the "C" locale classes; bytes >= 0x80 are in none of them.
-/
namespace Hex.Xcmp

inductive Tok where
  | NONE | IDENTIFIER | NUMBER | LBRACKET | RBRACKET | LPAREN | RPAREN | IF | THEN | ELSE | WHILE | DO
  | ASS | SKIP | BEGIN | END | SEMICOLON | COMMA | VAR | ARRAY | PROC | FUNC | IS | STOP | NOT | VAL
  | STRING | TRUE | FALSE | RETURN | PLUS | MINUS | OR | AND | EQ | NE | LS | LE | GR | GE | END_OF_FILE
  deriving DecidableEq, Repr, Inhabited

/-- `tokenEnumStr`. -/
def Tok.str : Tok → String
  | .NONE => "NONE" | .IDENTIFIER => "IDENTIFIER" | .NUMBER => "NUMBER" | .LBRACKET => "[" | .RBRACKET => "]"
  | .LPAREN => "(" | .RPAREN => ")" | .IF => "if" | .THEN => "then" | .ELSE => "else" | .WHILE => "while"
  | .DO => "do" | .ASS => ":=" | .SKIP => "skip" | .BEGIN => "{" | .END => "}" | .SEMICOLON => ";"
  | .COMMA => "," | .VAR => "var" | .ARRAY => "array" | .PROC => "proc" | .FUNC => "func" | .IS => "is"
  | .STOP => "stop" | .NOT => "~" | .VAL => "val" | .STRING => "string" | .TRUE => "true" | .FALSE => "false"
  | .RETURN => "return" | .PLUS => "+" | .MINUS => "-" | .OR => "or" | .AND => "and" | .EQ => "=" | .NE => "~="
  | .LS => "<" | .LE => "<=" | .GR => ">" | .GE => ">=" | .END_OF_FILE => "END_OF_FILE"

structure Loc where
  line : Nat
  col : Nat
  deriving DecidableEq, Repr, Inhabited

structure LTok where
  tok : Tok
  ident : List Byte     -- `Lexer::identifier` after this token was read
  value : Word          -- `Lexer::value`
  str : List Byte       -- `Lexer::string`
  loc : Loc             -- `Lexer::getLocation()` after this token was read
  deriving DecidableEq, Repr, Inhabited

inductive LexErrKind where
  | charConst           -- CharConstError
  | token               -- TokenError
  deriving DecidableEq, Repr, Inhabited

structure LexErr where
  kind : LexErrKind
  loc : Loc
  deriving DecidableEq, Repr, Inhabited

inductive LItem where
  | tok (t : LTok)
  | err (e : LexErr)
  deriving DecidableEq, Repr, Inhabited

def isSpace (c : Byte) : Bool := c = 32 || (9 ≤ c.toNat && c.toNat ≤ 13)
def isDigit (c : Byte) : Bool := 48 ≤ c.toNat && c.toNat ≤ 57
def isAlpha (c : Byte) : Bool := (65 ≤ c.toNat && c.toNat ≤ 90) || (97 ≤ c.toNat && c.toNat ≤ 122)
def isAlnum (c : Byte) : Bool := isAlpha c || isDigit c

def bytesOf (s : String) : List Byte := s.toList.map fun ch => BitVec.ofNat 8 ch.toNat

/-- `TokenTable::lookup` after `declareKeywords()`. -/
def keyword (id : List Byte) : Tok :=
  if id = bytesOf "and" then .AND else if id = bytesOf "array" then .ARRAY else if id = bytesOf "do" then .DO
  else if id = bytesOf "else" then .ELSE else if id = bytesOf "false" then .FALSE else if id = bytesOf "func" then .FUNC
  else if id = bytesOf "if" then .IF else if id = bytesOf "is" then .IS else if id = bytesOf "or" then .OR
  else if id = bytesOf "proc" then .PROC else if id = bytesOf "return" then .RETURN else if id = bytesOf "skip" then .SKIP
  else if id = bytesOf "stop" then .STOP else if id = bytesOf "then" then .THEN else if id = bytesOf "true" then .TRUE
  else if id = bytesOf "val" then .VAL else if id = bytesOf "var" then .VAR else if id = bytesOf "while" then .WHILE
  else .IDENTIFIER

/-- Saturation at `ULONG_MAX` followed by the conversion to `unsigned`. -/
def sat32 (n : Nat) : Word := BitVec.ofNat 32 (if n ≥ 2 ^ 64 then 2 ^ 64 - 1 else n)

/-- `(unsigned) strtoul(digits, nullptr, 10)` on a string of decimal digits. -/
def strtoulDec (ds : List Byte) : Word :=
  sat32 (ds.foldl (fun acc d => acc * 10 + (d.toNat - 48)) 0)

def hexVal (c : Byte) : Option Nat :=
  if isDigit c then some (c.toNat - 48)
  else if 97 ≤ c.toNat && c.toNat ≤ 102 then some (c.toNat - 87)
  else if 65 ≤ c.toNat && c.toNat ≤ 70 then some (c.toNat - 55)
  else none

def hexFold : List Byte → Nat → Nat
  | [], acc => acc
  | c :: cs, acc => match hexVal c with
    | some d => hexFold cs (acc * 16 + d)
    | none => acc

/-- `(unsigned) strtoul(s, nullptr, 16)` on a string of letters and digits: optional `0x`/`0X`
    prefix, then the longest prefix of hexadecimal digits (none: 0). -/
def strtoulHex (s : List Byte) : Word :=
  match s with
  | 48 :: x :: rest => if x = 120 || x = 88 then sat32 (hexFold rest 0) else sat32 (hexFold s 0)
  | _ => sat32 (hexFold s 0)

/-- `value = readCharConst()`: a `char` converted to `unsigned`. -/
def charValue (c : Byte) : Word := (c.signExtend 32)

/-- What the automaton is in the middle of. Accumulators are reversed. -/
inductive Mode where
  | start
  | comment
  | ident (acc : List Byte)
  | dec (acc : List Byte)
  | hex (acc : List Byte)
  | lt | gt | tilde | colon          -- `<`, `>`, `~`, `:` consumed, look-ahead decides
  | chr0                             -- after the opening `'`
  | chrEsc                           -- after `'\`
  | chrEnd (v : Word)                -- the closing `'` is due
  | str (acc : List Byte)            -- inside a string
  | strEsc (acc : List Byte)         -- after `\` inside a string
  deriving Repr

/-- Mutable lexer fields carried along. -/
structure LexSt where
  ident : List Byte := []
  value : Word := 0
  str : List Byte := []
  line : Nat := 0
  col : Nat := 1        -- counts the `readChar()` that fetched the current look-ahead

def mk (t : Tok) (s : LexSt) (col : Nat) : LItem :=
  .tok { tok := t, ident := s.ident, value := s.value, str := s.str, loc := ⟨s.line, col⟩ }

def errAt (k : LexErrKind) (s : LexSt) (col : Nat) : LexErr := ⟨k, ⟨s.line, col⟩⟩

/-- The escape characters of `readCharConst`. -/
def escape (c : Byte) : Option Byte :=
  if c = 92 then some 92 else if c = 39 then some 39 else if c = 34 then some 34
  else if c = 116 then some 9 else if c = 114 then some 13 else if c = 110 then some 10 else none

/-- What the automaton does with one look-ahead byte. -/
inductive Step where
  | go (m : Mode) (s : LexSt)                  -- the byte is consumed
  | emit (t : LItem) (m : Mode) (s : LexSt)    -- the byte is consumed and completes a token
  | stop (e : LexErr)                          -- a diagnostic: lexing stops

/-- What `readToken()` decides on the look-ahead when no token is in progress - a function of the
    byte alone. -/
inductive Act where
  | newline                                   -- white space '\n': next line
  | go (m : Mode)                             -- consume, continue in mode m
  | emit (t : Tok) (h : t ≠ .NUMBER)          -- a one-character token (or the END_OF_FILE of a 0xFF byte)
  | bad                                       -- "unexpected character"

def startAct (c : Byte) : Act :=
  if isSpace c then (if c = 10 then .newline else .go .start)
  else if c = 124 then .go .comment                                     -- '|'
  else if isAlpha c then .go (.ident [c])
  else if isDigit c then .go (.dec [c])
  else if c = 35 then .go (.hex [])                                     -- '#'
  else if c = 91 then .emit .LBRACKET (by decide)
  else if c = 93 then .emit .RBRACKET (by decide)
  else if c = 40 then .emit .LPAREN (by decide)
  else if c = 41 then .emit .RPAREN (by decide)
  else if c = 123 then .emit .BEGIN (by decide)
  else if c = 125 then .emit .END (by decide)
  else if c = 59 then .emit .SEMICOLON (by decide)
  else if c = 44 then .emit .COMMA (by decide)
  else if c = 43 then .emit .PLUS (by decide)
  else if c = 45 then .emit .MINUS (by decide)
  else if c = 61 then .emit .EQ (by decide)
  else if c = 60 then .go .lt
  else if c = 62 then .go .gt
  else if c = 126 then .go .tilde
  else if c = 58 then .go .colon
  else if c = 39 then .go .chr0
  else if c = 34 then .go (.str [])
  else if c = 255 then .emit .END_OF_FILE (by decide)                   -- (char)0xFF == EOF, lexing continues
  else .bad

/-- Dispatch of `readToken()` on the look-ahead `c` when no token is in progress.
    `s.col` already counts the read that fetched `c`. -/
def startStep (c : Byte) (s : LexSt) : Step :=
  let adv : LexSt := { s with col := s.col + 1 }
  match startAct c with
  | .newline => .go .start { s with line := s.line + 1, col := 1 }
  | .go m => .go m adv
  | .emit t _ => .emit (mk t s adv.col) .start adv
  | .bad => .stop (errAt .token s s.col)

/-- One byte in mode `m`: the token a look-ahead that does not belong to it completes (at most
    one), and what happens to the byte itself. -/
def step (c : Byte) (m : Mode) (s : LexSt) : List LItem × Step :=
  let adv : LexSt := { s with col := s.col + 1 }
  match m with
  | .start => ([], startStep c s)
  | .comment =>
    if c = 10 then ([], .go .start { s with line := s.line + 1, col := 1 })
    else if c = 255 then ([], startStep c s)
    else ([], .go .comment adv)
  | .ident acc =>
    if isAlnum c || c = 95 then ([], .go (.ident (c :: acc)) adv)
    else
      let s' := { s with ident := acc.reverse }
      ([mk (keyword acc.reverse) s' s.col], startStep c s')
  | .dec acc =>
    if isDigit c then ([], .go (.dec (c :: acc)) adv)
    else
      let s' := { s with value := strtoulDec acc.reverse }
      ([mk .NUMBER s' s.col], startStep c s')
  | .hex acc =>
    if isAlnum c then ([], .go (.hex (c :: acc)) adv)
    else
      let s' := { s with value := strtoulHex acc.reverse }
      ([mk .NUMBER s' s.col], startStep c s')
  | .lt => if c = 61 then ([], .emit (mk .LE s adv.col) .start adv) else ([mk .LS s s.col], startStep c s)
  | .gt => if c = 61 then ([], .emit (mk .GE s adv.col) .start adv) else ([mk .GR s s.col], startStep c s)
  | .tilde => if c = 61 then ([], .emit (mk .NE s adv.col) .start adv) else ([mk .NOT s s.col], startStep c s)
  | .colon => if c = 61 then ([], .emit (mk .ASS s adv.col) .start adv) else ([], .stop (errAt .token s s.col))
  | .chr0 =>
    if c = 92 then ([], .go .chrEsc adv)
    else ([], .go (.chrEnd (charValue c)) adv)
  | .chrEsc =>
    match escape c with
    | some ch => ([], .go (.chrEnd (charValue ch)) adv)
    | none => ([], .stop (errAt .charConst s s.col))
  | .chrEnd v =>
    let s' := { s with value := v }
    if c = 39 then ([], .emit (mk .NUMBER s' adv.col) .start { s' with col := s.col + 1 })
    else ([], .stop (errAt .token s' s.col))
  | .str acc =>
    if c = 34 then
      let s' := { s with str := acc.reverse }
      ([], .emit (mk .STRING s' adv.col) .start { s' with col := s.col + 1 })
    else if c = 255 then ([], .stop (errAt .token s s.col))
    else if c = 92 then ([], .go (.strEsc acc) adv)
    else ([], .go (.str (c :: acc)) adv)
  | .strEsc acc =>
    match escape c with
    | some ch => ([], .go (.str (ch :: acc)) adv)
    | none => ([], .stop (errAt .charConst s s.col))

/-- The real end of input in mode `m` (`lastChar = EOF`; further reads keep `EOF` and keep
    counting): the pending token, then END_OF_FILE - or the diagnostic. -/
def atEnd (m : Mode) (s : LexSt) : List LItem :=
  let eof (s : LexSt) : LItem := mk .END_OF_FILE s (s.col + 1)
  match m with
  | .start | .comment => [eof s]
  | .ident acc =>
    let s' := { s with ident := acc.reverse }
    [mk (keyword acc.reverse) s' s.col, eof s']
  | .dec acc =>
    let s' := { s with value := strtoulDec acc.reverse }
    [mk .NUMBER s' s.col, eof s']
  | .hex acc =>
    let s' := { s with value := strtoulHex acc.reverse }
    [mk .NUMBER s' s.col, eof s']
  | .lt => [mk .LS s s.col, eof s]
  | .gt => [mk .GR s s.col, eof s]
  | .tilde => [mk .NOT s s.col, eof s]
  | .colon => [.err (errAt .token s s.col)]
  | .chr0 => [.err (errAt .token s (s.col + 1))]      -- the character is (char)EOF, one more read, then "expected '"
  | .chrEsc => [.err (errAt .charConst s s.col)]
  | .chrEnd _ => [.err (errAt .token s s.col)]
  | .str _ => [.err (errAt .token s s.col)]
  | .strEsc _ => [.err (errAt .charConst s s.col)]

/-- The automaton. `c :: rest`: `c` is `lastChar`; `s.col` already counts the read that fetched it. -/
def lexGo : List Byte → Mode → LexSt → List LItem
  | [], m, s => atEnd m s
  | c :: rest, m, s =>
    match step c m s with
    | (pre, .go m' s') => pre ++ lexGo rest m' s'
    | (pre, .emit t m' s') => pre ++ t :: lexGo rest m' s'
    | (pre, .stop e) => pre ++ [.err e]

/-- Everything `getNextToken()` yields for a source buffer (`loadBuffer` then repeated calls), up to
    the END_OF_FILE of the real end of input or the first diagnostic. -/
def lexAll (src : List Byte) : List LItem := lexGo src .start {}

/-- The same with an explicit value for `Lexer::value`, the member the C++ constructor leaves
    uninitialised (`identifier` and `string` are `std::string`s, `lastChar`/`lastToken` are written by
    `loadBuffer`/`getNextToken` before they are read).  `lexAll = lexAllJ 0`. -/
def lexAllJ (junk : Word) (src : List Byte) : List LItem := lexGo src .start { value := junk }

/-! ### `emitTokens` (`xcmp --tokens`) -/

def natDigits (n : Nat) : List Byte := (Nat.toDigits 10 n).map fun ch => BitVec.ofNat 8 ch.toNat

/-- `out << int`. -/
def intText (w : Word) : List Byte :=
  if w.toInt < 0 then 45 :: natDigits (w.toInt.natAbs) else natDigits w.toNat

def tokenLine (t : LTok) : List Byte :=
  match t.tok with
  | .IDENTIFIER => bytesOf "IDENTIFIER " ++ t.ident ++ [10]
  | .NUMBER => bytesOf "NUMBER " ++ intText t.value ++ [10]
  | .STRING => bytesOf "STRING " ++ t.str ++ [10]
  | .END_OF_FILE => bytesOf "EOF\n"
  | k => bytesOf k.str ++ [10]

/-- The text `emitTokens` writes (it stops at the first END_OF_FILE), or the diagnostic it dies with. -/
def emitTokens : List LItem → List Byte → Except LexErr (List Byte)
  | [], acc => .ok acc
  | .err e :: _, _ => .error e
  | .tok t :: rest, acc =>
    if t.tok = .END_OF_FILE then .ok (acc ++ tokenLine t) else emitTokens rest (acc ++ tokenLine t)

def tokensOutput (src : List Byte) : Except LexErr (List Byte) := emitTokens (lexAll src) []
def tokensOutputJ (junk : Word) (src : List Byte) : Except LexErr (List Byte) := emitTokens (lexAllJ junk src) []

end Hex.Xcmp
