import HexVerif.X.Syntax
import HexVerif.Asm.Syntax
/-!
  Model of xcmp (xcmp.hpp), part 1: the annotated AST, diagnostics, the symbol table
  (`Symbol`, `SymbolTable`, 1717-1769) and its construction (`CreateSymbols`, 1775-1813).

  The C++ AST carries on every `Expr` an optional constant value (`Expr::constValue`, 636) that
  `ConstProp` fills in and `OptimiseExpr` drops on the nodes it rebuilds; `CallExpr` carries a
  system-call id (−1 = none) that `ConstProp` may set from a `val`.  `AExpr` is `X.Expr` with
  those two annotations.

  The symbol table is a `std::map` keyed by (scope, name) where scope is "" for globals and the
  procedure name for formals and locals; `insert` of a key that is already present raises
  `RedeclaredSymbolError`.  The model keeps an association list; xcmp never iterates over the
  map, so order is unobservable.
-/
namespace Hex.Xcmp
open Hex.X (BinOp UnOp)

/-- C++ `int` values are kept as 32-bit words (two's complement); `.toInt` gives the `int`. -/
abbrev CInt := Word

/-- Diagnostics by C++ exception class (all derive from `hexutil::Error`). -/
inductive CDiag where
  | unknownSymbol (name : String)           -- UnknownSymbolError
  | redeclaredSymbol (name : String)        -- RedeclaredSymbolError
  | nonConstArrayLength (name : String)     -- NonConstArrayLengthError
  | nonConstVal (name : String)             -- NonConstValError
  | invalidSyscall (id : Int)               -- InvalidSyscallError
  | asm (d : Asm.Diag)                      -- raised by hexasm::CodeGen on the directive list
  | asmFuel                                 -- label resolution did not terminate (proved impossible)
  | unsupported (what : String)             -- trees the parser cannot build (local array)
  deriving Repr

/-- Exception class name, as the harness prints it. -/
def CDiag.className : CDiag → String
  | .unknownSymbol _ => "xcmp::UnknownSymbolError"
  | .redeclaredSymbol _ => "xcmp::RedeclaredSymbolError"
  | .nonConstArrayLength _ => "xcmp::NonConstArrayLengthError"
  | .nonConstVal _ => "xcmp::NonConstValError"
  | .invalidSyscall _ => "xcmp::InvalidSyscallError"
  | .asm (.unknownLabel _ _) => "hexasm::UnknownLabelError"
  | .asm (.unalignedLabel _ _) => "hexasm::UnalignedLabelError"
  | .asm _ => "hexasm::Error"
  | .asmFuel => "fuel"
  | .unsupported _ => "unsupported"

/-! ### Annotated AST -/

inductive AExpr where
  | num (v : Word) (c : Option CInt)                    -- NumberExpr
  | bool (b : Bool) (c : Option CInt)                   -- BooleanExpr
  | str (bytes : List Byte)                             -- StringExpr (never constant)
  | name (n : String) (c : Option CInt)                 -- VarRefExpr
  | sub (n : String) (i : AExpr)                        -- ArraySubscriptExpr (never constant)
  | call (sys : Int) (f : String) (args : List AExpr)   -- CallExpr: sysCallId (−1: none), name
  | un (op : UnOp) (e : AExpr) (c : Option CInt)        -- UnaryOpExpr
  | bin (op : BinOp) (l r : AExpr) (c : Option CInt)    -- BinaryOpExpr
  deriving Repr, Inhabited

/-- `Expr::constValue`. -/
def AExpr.const : AExpr → Option CInt
  | .num _ c | .bool _ c | .name _ c | .un _ _ c | .bin _ _ _ c => c
  | .str _ | .sub _ _ | .call _ _ _ => none

@[simp] theorem AExpr.const_num (v c) : (AExpr.num v c).const = c := rfl
@[simp] theorem AExpr.const_bool (b c) : (AExpr.bool b c).const = c := rfl
@[simp] theorem AExpr.const_str (b) : (AExpr.str b).const = none := rfl
@[simp] theorem AExpr.const_name (n c) : (AExpr.name n c).const = c := rfl
@[simp] theorem AExpr.const_sub (n i) : (AExpr.sub n i).const = none := rfl
@[simp] theorem AExpr.const_call (s f a) : (AExpr.call s f a).const = none := rfl
@[simp] theorem AExpr.const_un (o e c) : (AExpr.un o e c).const = c := rfl
@[simp] theorem AExpr.const_bin (o l r c) : (AExpr.bin o l r c).const = c := rfl

/-- `Expr::isConst()`. -/
def AExpr.isConst (e : AExpr) : Bool := e.const.isSome
/-- `Expr::isConstZero()`. -/
def AExpr.isConstZero (e : AExpr) : Bool := e.const == some 0

inductive AStmt where
  | skip
  | stop
  | ret (e : AExpr)
  | ite (c : AExpr) (t e : AStmt)
  | while (c : AExpr) (body : AStmt)
  | seq (ss : List AStmt)
  | assign (n : String) (e : AExpr)                     -- LHS is a VarRefExpr
  | assignSub (n : String) (i e : AExpr)                -- LHS is an ArraySubscriptExpr
  | call (sys : Int) (f : String) (args : List AExpr)   -- CallStatement
  deriving Repr, Inhabited

inductive ADecl where
  | val (n : String) (e : AExpr)
  | var (n : String)
  | array (n : String) (size : AExpr)
  deriving Repr, Inhabited

def ADecl.name : ADecl → String
  | .val n _ => n | .var n => n | .array n _ => n

structure AProc where
  isFunc : Bool
  name : String
  formals : List X.Formal
  locals : List ADecl
  body : AStmt
  deriving Repr, Inhabited

structure AProgram where
  globals : List ADecl
  procs : List AProc
  deriving Repr, Inhabited

/-! ### Symbols -/

inductive SymType where
  | val | var | array | func | proc
  deriving DecidableEq, Repr, Inhabited

/-- Identity of the AST node a symbol points at (`Symbol::node`). -/
inductive NodeRef where
  | gdecl (i : Nat)               -- i-th global declaration
  | proc (i : Nat)                -- i-th procedure
  | formal (p i : Nat)            -- i-th formal of the p-th procedure
  | ldecl (p i : Nat)             -- i-th local declaration of the p-th procedure
  deriving DecidableEq, Repr, Inhabited

/-- `class Symbol`.  `frame` is the index of the procedure whose `Frame` object the symbol
    shares (`std::shared_ptr<Frame>`); `stackOffset` and `globalLabel` are only meaningful once
    code generation has set them (the C++ leaves `stackOffset` uninitialised; it is never read
    before `FormalLocations`/`LocalDeclLocations` set it). -/
structure Symbol where
  type : SymType
  node : NodeRef
  isValDecl : Bool                -- `dynamic_cast<const ValDecl*>(node)` succeeds
  scope : String
  name : String
  frame : Nat := 0
  stackOffset : Int := 0
  globalLabel : String := ""
  deriving Repr, Inhabited

abbrev SymKey := String × String
abbrev SymTab := List (SymKey × Symbol)

def SymTab.find? (t : SymTab) (k : SymKey) : Option Symbol :=
  match t with
  | [] => none
  | (k', s) :: rest => if k' = k then some s else SymTab.find? rest k

/-- `SymbolTable::lookup`: the scope first, then the global scope. -/
def SymTab.lookup (t : SymTab) (scope name : String) : Except CDiag Symbol :=
  match t.find? (scope, name) with
  | some s => .ok s
  | none =>
    if scope ≠ "" then
      match t.find? ("", name) with
      | some s => .ok s
      | none => .error (.unknownSymbol name)
    else .error (.unknownSymbol name)

/-- Update the live entry of a key (mutation through the `Symbol*` a lookup returned). -/
def SymTab.modify (t : SymTab) (k : SymKey) (f : Symbol → Symbol) : SymTab :=
  match t with
  | [] => []
  | (k', s) :: rest => if k' = k then (k', f s) :: rest else (k', s) :: SymTab.modify rest k f

/-- The key under which `lookup scope name` finds its symbol (none: unknown). -/
def SymTab.keyOf (t : SymTab) (scope name : String) : Option SymKey :=
  match t.find? (scope, name) with
  | some _ => some (scope, name)
  | none => if scope ≠ "" then (match t.find? ("", name) with | some _ => some ("", name) | none => none) else none

/-! ### `CreateSymbols` (1775-1813) -/

def declSymType : X.Decl → SymType
  | .val _ _ => .val | .var _ => .var | .array _ _ => .array

def declIsVal : X.Decl → Bool
  | .val _ _ => true | _ => false

def formalSymType : X.Formal → SymType
  | .val _ => .val | .array _ => .array | .proc _ => .proc | .func _ => .func

/-- `SymbolTable::insert` (1753-1761): a second declaration of a (scope, name) is an error. -/
def SymTab.insert (t : SymTab) (k : SymKey) (s : Symbol) : Except CDiag SymTab :=
  match t.find? k with
  | some _ => .error (.redeclaredSymbol k.2)
  | none => .ok ((k, s) :: t)

/-! The C++ constructor of `Symbol` leaves `stackOffset` uninitialised; the `J` versions take the
    value it happens to hold as a parameter `j` (C11: it is never read before
    `FormalLocations`/`LocalDeclLocations` overwrite it, `Lemmas/XcmpSymJunk.lean`). -/

def createGlobalsJ (j : Int) : List X.Decl → Nat → SymTab → Except CDiag SymTab
  | [], _, t => .ok t
  | d :: ds, i, t => do
    let t' ← t.insert ("", d.name)
      { type := declSymType d, node := .gdecl i, isValDecl := declIsVal d, scope := "", name := d.name, stackOffset := j }
    createGlobalsJ j ds (i + 1) t'

def createFormalsJ (j : Int) (p : Nat) (scope : String) : List X.Formal → Nat → SymTab → Except CDiag SymTab
  | [], _, t => .ok t
  | f :: fs, i, t => do
    let t' ← t.insert (scope, f.name)
      { type := formalSymType f, node := .formal p i, isValDecl := false, scope := scope, name := f.name, stackOffset := j }
    createFormalsJ j p scope fs (i + 1) t'

def createLocalsJ (j : Int) (p : Nat) (scope : String) : List X.Decl → Nat → SymTab → Except CDiag SymTab
  | [], _, t => .ok t
  | d :: ds, i, t => do
    let t' ← t.insert (scope, d.name)
      { type := declSymType d, node := .ldecl p i, isValDecl := declIsVal d, scope := scope, name := d.name, stackOffset := j }
    createLocalsJ j p scope ds (i + 1) t'

def createProcsJ (j : Int) : List X.Proc → Nat → SymTab → Except CDiag SymTab
  | [], _, t => .ok t
  | p :: ps, i, t => do
    -- visitPre(Proc) runs before enterProc: the procedure's own symbol lives in the global scope
    let t1 ← t.insert ("", p.name)
      { type := if p.isFunc then .func else .proc, node := .proc i, isValDecl := false, scope := "", name := p.name,
        stackOffset := j }
    let t2 ← createFormalsJ j i p.name p.formals 0 t1
    let t3 ← createLocalsJ j i p.name p.locals 0 t2
    createProcsJ j ps (i + 1) t3

/-- `tree->accept(&createSymbols)` with uninitialised `stackOffset`s holding `j`. -/
def createSymbolsJ (j : Int) (P : X.Program) : Except CDiag SymTab := do
  let t ← createGlobalsJ j P.globals 0 []
  createProcsJ j P.procs 0 t

/-- `tree->accept(&createSymbols)`. -/
def createSymbols (P : X.Program) : Except CDiag SymTab := createSymbolsJ 0 P

end Hex.Xcmp
