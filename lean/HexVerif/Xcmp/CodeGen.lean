import HexVerif.Xcmp.Optimise
import HexVerif.Asm.CodeGen
/-!
  Model of xcmp, part 4: code generation (xcmp.hpp 1993-2846): `Frame`, the intermediate
  directives, `CodeBuffer` with its `ExprCodeGen` / `StmtCodeGen` visitors, `FormalLocations`,
  `LocalDeclLocations` and the `CodeGen` walk.

  Shape of the model.  The C++ appends to `cb.instrs` / `cb.data` and mutates the current `Frame`
  and three counters; here every generator is a state transformer over `GS` (counters, constant
  map, the `data` vector, `Frame::offset`, `Frame::size`) that RETURNS the directives it appended
  to `instrs`, so that the code of a phrase is the concatenation of the code of its parts in
  emission order.  Quantities the visitors only read (symbol table, current scope, current frame
  and its exit label) are in `Ctx`.
-/
namespace Hex.Xcmp
open Hex.X (BinOp UnOp)
open Hex.Asm (Dir LabelKind)

inductive Reg where
  | A | B
  deriving DecidableEq, Repr, Inhabited

inductive FbKind where
  | ldai | ldbi | stai
  deriving DecidableEq, Repr, Inhabited

/-- What `CodeBuffer::instrs` holds after code generation: hexasm directives and the
    intermediate ones (`SPValue`, `Prologue`, `Epilogue`, `InstrStackOffset`). -/
inductive IDir where
  | dir (d : Dir)
  | spValue
  | prologue (name : String)                     -- holds the procedure's `Symbol*`
  | epilogue (name : String)
  | fb (k : FbKind) (frame : Nat) (off : Int)    -- LDAI_FB / LDBI_FB / STAI_FB: `Frame*`, offset
  deriving DecidableEq, Repr, Inhabited

abbrev Code := List IDir

/-! ### Instruction constructors (`CodeBuffer::gen*`, 2071-2115) -/

def SP_OFFSET : Int := 1
def MAX_ADDRESS : Int := 200000
def FB_PARAM_OFFSET_FUNC : Nat := 2
def FB_PARAM_OFFSET_PROC : Nat := 1

def iLDAM (v : Int) : IDir := .dir (.imm 0x0 v)
def iLDBM (v : Int) : IDir := .dir (.imm 0x1 v)
def iSTAM (v : Int) : IDir := .dir (.imm 0x2 v)
def iLDAC (v : Int) : IDir := .dir (.imm 0x3 v)
def iLDBC (v : Int) : IDir := .dir (.imm 0x4 v)
def iLDAI (v : Int) : IDir := .dir (.imm 0x6 v)
def iLDBI (v : Int) : IDir := .dir (.imm 0x7 v)
def iSTAI (v : Int) : IDir := .dir (.imm 0x8 v)
def lLDAM (l : String) : IDir := .dir (.ref 0x0 l false)
def lLDBM (l : String) : IDir := .dir (.ref 0x1 l false)
def lSTAM (l : String) : IDir := .dir (.ref 0x2 l false)
def lLDAC (l : String) : IDir := .dir (.ref 0x3 l false)
def lLDBC (l : String) : IDir := .dir (.ref 0x4 l true)     -- 2089: marked pc-relative (D16)
def lLDAP (l : String) : IDir := .dir (.ref 0x5 l true)
def lBR (l : String) : IDir := .dir (.ref 0x9 l true)
def lBRZ (l : String) : IDir := .dir (.ref 0xA l true)
def lBRN (l : String) : IDir := .dir (.ref 0xB l true)
def iLabel (l : String) : IDir := .dir (.label .plain l)
def iBRB : IDir := .dir (.opr 0)
def iADD : IDir := .dir (.opr 1)
def iSUB : IDir := .dir (.opr 2)
def iSVC : IDir := .dir (.opr 3)

/-! ### Generator state -/

/-- The mutable part of `CodeBuffer` plus the current `Frame`'s `offset` and `size`. -/
structure GS where
  labelCount : Nat := 0
  constCount : Nat := 0
  stringCount : Nat := 0
  constMap : List (Int × String) := []
  data : List Dir := []
  offset : Nat := 0
  size : Nat := 0
  /-- Ghost (not part of the compiler's state, never read by the generators): the string literals
      generated so far, with their labels. -/
  strs : List (String × List Byte) := []
  deriving Repr, Inhabited

/-- What the visitors read: the symbol table, `currentScope`, the current frame (index of its
    procedure) and its exit label. -/
structure Ctx where
  tbl : SymTab
  scope : String
  frame : Nat
  exitLabel : String

abbrev M := StateT GS (Except CDiag)

/-- `CodeBuffer::getLabel()`. -/
def getLabel : M String :=
  modifyGet fun s => ("_lab" ++ toString s.labelCount, { s with labelCount := s.labelCount + 1 })

def getOffset : M Nat := do return (← get).offset

/-- `Frame::incOffset`. -/
def incOffset (amount : Nat) : M Unit :=
  modify fun s => { s with offset := s.offset + amount, size := max s.size (s.offset + amount) }

/-- `Frame::decOffset`. -/
def decOffset (amount : Nat) : M Unit :=
  modify fun s => { s with offset := s.offset - amount }

/-- `Frame::setOffset`. -/
def setOffset (v : Nat) : M Unit :=
  modify fun s => { s with offset := v }

/-- `Frame::getSize` / `Frame::setSize`. -/
def getSize : M Nat := do return (← get).size

def setSize (v : Nat) : M Unit :=
  modify fun s => { s with size := v }

def incOffsetN : Nat → M Unit
  | 0 => pure ()
  | n + 1 => do incOffset 1; incOffsetN n

def addData (ds : List Dir) : M Unit :=
  modify fun s => { s with data := s.data ++ ds }

/-- `genConstPool` (2493-2503). -/
def genConstPool (value : Int) : M String := do
  let s ← get
  match s.constMap.find? (fun e => e.1 = value) with
  | some e => pure e.2
  | none =>
    let label := "_const" ++ toString s.constCount
    set { s with constCount := s.constCount + 1, constMap := s.constMap ++ [(value, label)],
                 data := s.data ++ [Dir.label .plain label, Dir.data value] }
    pure label

/-- `genConst` (2506-2521). -/
def genConst (reg : Reg) (v : CInt) : M Code :=
  if v.toInt > -65536 ∧ v.toInt < 65536 then
    pure (match reg with
      | .A => [iLDAC v.toInt]
      | .B => [iLDBC v.toInt])
  else do
    let label ← genConstPool v.toInt
    pure (match reg with
      | .A => [lLDAM label]
      | .B => [lLDBM label])

/-- The packing loop of `genString` (2530-2543); each byte is converted to unsigned before the
    shift (repaired D15). -/
def packGo (n : Nat) : List Byte → Nat → Word → List Word
  | [], _, _ => []
  | c :: rest, idx, packed =>
    let bytePos := (idx + 1) % 4
    let packed' := packed ||| ((c.zeroExtend 32 : Word) <<< (bytePos * 8))
    if bytePos = 3 ∨ idx = n - 1 then packed' :: packGo n rest (idx + 1) 0
    else packGo n rest (idx + 1) packed'

def packString (bytes : List Byte) : List Word :=
  let first : Word := BitVec.ofNat 32 (bytes.length % 256)
  if bytes.isEmpty then [first] else packGo bytes.length bytes 0 first

/-- `genString` (2524-2549). -/
def genString (reg : Reg) (bytes : List Byte) : M Code := do
  let s ← get
  let label := "_string" ++ toString s.stringCount
  set { s with stringCount := s.stringCount + 1,
               data := s.data ++ (Dir.label .plain label :: (packString bytes).map fun (w : Word) => Dir.data w.toInt),
               strs := s.strs ++ [(label, bytes)] }
  match reg with
  | .A => pure [lLDAC label]
  | .B => pure [lLDBC label]

/-- `genVar` (2552-2576). -/
def genVar (reg : Reg) (sym : Symbol) : Code :=
  if sym.scope = "" then
    match reg with
    | .A => [lLDAM sym.globalLabel]
    | .B => [lLDBM sym.globalLabel]
  else
    match reg with
    | .A => [iLDAM SP_OFFSET, .fb .ldai sym.frame sym.stackOffset]
    | .B => [iLDBM SP_OFFSET, .fb .ldbi sym.frame sym.stackOffset]

/-- `ExprCodeGen::needsAReg` (2138-2140). -/
def needsAReg : AExpr → Bool
  | .str _ => false
  | .name _ _ => false
  | e => !e.isConst

mutual
/-- `CodeBuffer::containsCall` (the `ContainsCall` visitor with all recursion flags on; constant
    unary/binary nodes are not descended into). -/
def containsCall : AExpr → Bool
  | .num _ _ | .bool _ _ | .str _ | .name _ _ => false
  | .sub _ i => containsCall i
  | .call _ _ _ => true
  | .un _ e c => if c.isSome then false else containsCall e
  | .bin _ l r c => if c.isSome then false else (containsCall l || containsCall r)
end

def countCalls : List AExpr → Nat
  | [] => 0
  | a :: as => (if containsCall a then 1 else 0) + countCalls as

/-- `ExprCodeGen::genBinopOperands` (2141-2166) over the generators of its operands. -/
def binopOperands (ctx : Ctx) (rNeedsA : Bool) (genL genRA genRB : M Code) : M Code := do
  if rNeedsA then
    let stackOffset ← getOffset
    let cr ← genRA
    let offset ← getOffset
    incOffset 1
    let cl ← genL
    setOffset stackOffset
    pure (cr ++ [iLDBM SP_OFFSET, .fb .stai ctx.frame (-(offset : Int))] ++ cl ++
          [iLDBM SP_OFFSET, .fb .ldbi ctx.frame (-(offset : Int))])
  else
    let cl ← genL
    let cr ← genRB
    pure (cl ++ cr)

/-- The `LDAC 0 / LDAC 1` selection after a test (2222-2229, 2247-2254, 2269-2277). -/
def selectTail (br : String → IDir) (trueLabel endLabel : String) : Code :=
  [br trueLabel, iLDAC 0, lBR endLabel, iLabel trueLabel, iLDAC 1, iLabel endLabel]

/-- The operand of the zero test of `=` and `<` (2205-2221, 2232-2246): the other operand when
    one is the constant 0, else the difference `LHS - RHS` (a fresh, non-constant MINUS node run
    through `genExpr`: `genBinopOperands` then SUB). -/
def eqOperand (lZero rZero : Bool) (genL genR genOps : M Code) : M Code :=
  if lZero then genR
  else if rZero then genL
  else do
    let c ← genOps
    pure (c ++ [iSUB])

inductive CallKind where
  | sys (id : Int)
  | func (name : String)
  | proc (name : String)

def CallKind.paramOffset : CallKind → Nat
  | .sys _ | .func _ => FB_PARAM_OFFSET_FUNC
  | .proc _ => FB_PARAM_OFFSET_PROC

/-- The instructions after the actuals have been loaded: the system call, or branch and link;
    then the result is fetched from `sp[1]` (system calls and functions). -/
def callTailM (kind : CallKind) : M Code :=
  match kind with
  | .sys id => pure [iLDAC id, iSVC, iLDAM SP_OFFSET, iLDAI 1]
  | .func name => do
    let linkLabel ← getLabel
    pure [lLDAP linkLabel, lBR name, iLabel linkLabel, iLDAM SP_OFFSET, iLDAI 1]
  | .proc name => do
    let linkLabel ← getLabel
    pure [lLDAP linkLabel, lBR name, iLabel linkLabel]

/-- `ExprCodeGen::visitPost(CallExpr&)` (2292-2303): which of the three call generators runs. -/
def exprCallKind (ctx : Ctx) (sys : Int) (f : String) : M CallKind :=
  if sys ≠ -1 then pure (CallKind.sys sys)
  else do
    let sym ← (ctx.tbl.lookup ctx.scope f : Except CDiag Symbol)
    pure (if sym.type = .func then CallKind.func f else CallKind.proc f)

/-- `genSysCall` / `genFuncCall` / `genProcCall` with `genActuals` (2644-2705) over the generators
    of the two passes over the actuals (`genCallActuals`, second loop of `loadActuals`).
    `genActuals` measures the deepest frame offset reached while the actuals are generated (by
    resetting the running `Frame::size` to the current offset) and allocates the outgoing area
    (link, result, parameters) from there. -/
def callSeq (kind : CallKind) (nargs ncalls : Nat) (actuals : M Code) (load : Nat → Nat → M Code) : M Code := do
  let stackOffset ← getOffset
  -- genActuals
  let frameSize ← getSize
  setSize stackOffset
  -- genCallActuals
  let c1 ← actuals
  setOffset stackOffset
  -- loadActuals
  let savedOffset ← getOffset
  incOffsetN ncalls
  let c2 ← load kind.paramOffset savedOffset
  let deepestOffset ← getSize
  setSize (max frameSize deepestOffset)
  setOffset deepestOffset
  incOffset (nargs + kind.paramOffset)
  let c3 ← callTailM kind
  setOffset stackOffset
  pure (c1 ++ c2 ++ c3)

mutual
/-- `CodeBuffer::genExpr` = `ExprCodeGen` (2127-2329) run on one node. -/
def genExpr (ctx : Ctx) : AExpr → Reg → M Code
  | .num v _, reg => genConst reg v                 -- NumberExpr::getValue(): the literal itself
  | .bool b _, reg => genConst reg (b2w b)
  | .str bs, reg => genString reg bs
  | .name n c, reg =>
    match c with
    | some v => genConst reg v
    | none => do
      let sym ← (ctx.tbl.lookup ctx.scope n : Except CDiag Symbol)
      pure (genVar reg sym)
  | .sub n i, _ => do
    let baseSymbol ← (ctx.tbl.lookup ctx.scope n : Except CDiag Symbol)
    match i.const with
    | some v => pure (genVar .A baseSymbol ++ [iLDAI v.toInt])
    | none => do
      let ci ← genExpr ctx i .A
      pure (ci ++ genVar .B baseSymbol ++ [iADD, iLDAI 0])
  | .call sys f args, _ => do
    let kind ← exprCallKind ctx sys f
    callSeq kind args.length (countCalls args) (genCallActuals ctx args) (fun p s => loadActuals ctx args p s)
  | .un op e c, reg =>
    match c with
    | some v => genConst reg v
    | none =>
      match op with
      | .not => do
        let trueLabel ← getLabel
        let endLabel ← getLabel
        let ce ← genExpr ctx e .A
        pure (ce ++ selectTail lBRZ trueLabel endLabel)
      | .neg => pure []                              -- assert(0) in a release build
  | .bin op l r c, reg =>
    match c with
    | some v => genConst reg v
    | none =>
      match op with
      | .plus => do
        let c ← binopOperands ctx (needsAReg r) (genExpr ctx l .A) (genExpr ctx r .A) (genExpr ctx r .B)
        pure (c ++ [iADD])
      | .minus => do
        let c ← binopOperands ctx (needsAReg r) (genExpr ctx l .A) (genExpr ctx r .A) (genExpr ctx r .B)
        pure (c ++ [iSUB])
      | .and => do
        let endLabel ← getLabel
        let cl ← genExpr ctx l .A
        let cr ← genExpr ctx r .A
        pure (cl ++ [lBRZ endLabel] ++ cr ++ [iLabel endLabel])
      | .or => do
        let falseLabel ← getLabel
        let endLabel ← getLabel
        let cl ← genExpr ctx l .A
        let cr ← genExpr ctx r .A
        pure (cl ++ [lBRZ falseLabel, lBR endLabel, iLabel falseLabel] ++ cr ++ [iLabel endLabel])
      | .eq => do
        let c ← eqOperand l.isConstZero r.isConstZero (genExpr ctx l .A) (genExpr ctx r .A)
          (binopOperands ctx (needsAReg r) (genExpr ctx l .A) (genExpr ctx r .A) (genExpr ctx r .B))
        let trueLabel ← getLabel
        let endLabel ← getLabel
        pure (c ++ selectTail lBRZ trueLabel endLabel)
      | .ls => do
        let c ← eqOperand false r.isConstZero (genExpr ctx l .A) (genExpr ctx r .A)
          (binopOperands ctx (needsAReg r) (genExpr ctx l .A) (genExpr ctx r .A) (genExpr ctx r .B))
        let trueLabel ← getLabel
        let endLabel ← getLabel
        pure (c ++ selectTail lBRN trueLabel endLabel)
      | _ => pure []                                 -- assert(0) in a release build
/-- The loop of `genCallActuals` (2582-2593). -/
def genCallActuals (ctx : Ctx) : List AExpr → M Code
  | [] => pure []
  | arg :: rest => do
    if containsCall arg then
      let c ← genExpr ctx arg .A
      let off ← getOffset
      incOffset 1
      let cs ← genCallActuals ctx rest
      pure (c ++ [iLDBM SP_OFFSET, .fb .stai ctx.frame (-(off : Int))] ++ cs)
    else genCallActuals ctx rest
/-- The second loop of `loadActuals` (2612-2630). -/
def loadActuals (ctx : Ctx) : List AExpr → Nat → Nat → M Code
  | [], _, _ => pure []
  | arg :: rest, parameterIndex, savedOffset => do
    if containsCall arg then
      let cs ← loadActuals ctx rest (parameterIndex + 1) (savedOffset + 1)
      pure ([iLDAM SP_OFFSET, .fb .ldai ctx.frame (-(savedOffset : Int)), iLDBM SP_OFFSET, iSTAI parameterIndex] ++ cs)
    else
      let c ← genExpr ctx arg .A
      let cs ← loadActuals ctx rest (parameterIndex + 1) savedOffset
      pure (c ++ [iLDBM SP_OFFSET, iSTAI parameterIndex] ++ cs)
end

/-- The exit sequence of `stop` and of the start-up stub. -/
def exitSeq : Code := [iLDBM SP_OFFSET, iLDAC 0, iSTAI FB_PARAM_OFFSET_FUNC, iSVC]

def AStmt.isSkip : AStmt → Bool
  | .skip => true
  | _ => false

mutual
/-- `CodeBuffer::genStmt` = `StmtCodeGen` (2331-2460). -/
def genStmt (ctx : Ctx) : AStmt → M Code
  | .skip => pure []
  | .stop => pure exitSeq
  | .ret e => do
    let c ← genExpr ctx e .A
    pure (c ++ [lBR ctx.exitLabel])
  | .ite cond t e =>
    if t.isSkip ∧ e.isSkip then
      if containsCall cond then genExpr ctx cond .A else pure []
    else if e.isSkip then do
      let endLabel ← getLabel
      let cc ← genExpr ctx cond .A
      let ct ← genStmt ctx t
      pure (cc ++ [lBRZ endLabel] ++ ct ++ [iLabel endLabel])
    else if t.isSkip then do
      let elseLabel ← getLabel
      let endLabel ← getLabel
      let cc ← genExpr ctx cond .A
      let ce ← genStmt ctx e
      pure (cc ++ [lBRZ elseLabel, lBR endLabel, iLabel elseLabel] ++ ce ++ [iLabel endLabel])
    else do
      let elseLabel ← getLabel
      let endLabel ← getLabel
      let cc ← genExpr ctx cond .A
      let ct ← genStmt ctx t
      let ce ← genStmt ctx e
      pure (cc ++ [lBRZ elseLabel] ++ ct ++ [lBR endLabel, iLabel elseLabel] ++ ce ++ [iLabel endLabel])
  | .while cond body => do
    let beginLabel ← getLabel
    let endLabel ← getLabel
    let cc ← genExpr ctx cond .A
    let cb ← genStmt ctx body
    pure ([iLabel beginLabel] ++ cc ++ [lBRZ endLabel] ++ cb ++ [lBR beginLabel, iLabel endLabel])
  | .seq ss => genStmts ctx ss
  | .assign n e => do
    let c ← genExpr ctx e .A
    let sym ← (ctx.tbl.lookup ctx.scope n : Except CDiag Symbol)
    if sym.scope = "" then pure (c ++ [lSTAM sym.globalLabel])
    else pure (c ++ [iLDBM SP_OFFSET, .fb .stai ctx.frame sym.stackOffset])
  | .assignSub n i e => do
    let ci ← genExpr ctx i .A
    let sym ← (ctx.tbl.lookup ctx.scope n : Except CDiag Symbol)
    let stackOffset ← getOffset
    incOffset 1
    let ce ← genExpr ctx e .A
    decOffset 1
    pure (ci ++ genVar .B sym ++ [iADD, iLDBM SP_OFFSET, .fb .stai ctx.frame (-(stackOffset : Int))] ++ ce ++
          [iLDBM SP_OFFSET, .fb .ldbi ctx.frame (-(stackOffset : Int)), iSTAI 0])
  | .call sys f args =>
    let kind := if sys ≠ -1 then CallKind.sys sys else CallKind.proc f
    callSeq kind args.length (countCalls args) (genCallActuals ctx args) (fun p s => loadActuals ctx args p s)
def genStmts (ctx : Ctx) : List AStmt → M Code
  | [] => pure []
  | s :: ss => do
    let c ← genStmt ctx s
    let cs ← genStmts ctx ss
    pure (c ++ cs)
end

/-! ### The `CodeGen` walk (2763-2846) -/

/-- Per-procedure `Frame` object once its procedure has been generated: final size, exit label. -/
structure FrameInfo where
  size : Nat
  exitLabel : String
  deriving Repr, Inhabited

/-- State of the walk between procedures. -/
structure CGState where
  tbl : SymTab
  gs : GS := {}
  globalsOffset : Int := 0
  frames : List FrameInfo := []
  instrs : Code := []

/-- What `LowerDirectives` reads from the `CodeGen` object. -/
structure CGOut where
  instrs : Code
  data : List Dir
  tbl : SymTab
  frames : List FrameInfo
  globalsOffset : Int

/-- `CodeGen::visitPre(Program&)` (2773-2787). -/
def startStub : Code :=
  [lBR "_start", .spValue, iLabel "_start", lLDAP "_exit", lBR "main", iLabel "_exit"] ++ exitSeq

def takeLabel (gs : GS) : String × GS :=
  ("_lab" ++ toString gs.labelCount, { gs with labelCount := gs.labelCount + 1 })

/-- `setX` through the pointer returned by `st.lookup(scope, name)`. -/
def modifySym (tbl : SymTab) (scope name : String) (f : Symbol → Symbol) : SymTab :=
  match tbl.keyOf scope name with
  | some k => tbl.modify k f
  | none => tbl

/-- `ArrayDecl::getSize()` (832-837). -/
def arraySize (n : String) (e : AExpr) : Except CDiag Int :=
  match e.const with
  | some v => .ok v.toInt
  | none => .error (.nonConstArrayLength n)

/-- `CodeGen::visitPost(VarDecl&)` / `visitPost(ArrayDecl&)` on the global declarations. -/
def cgGlobals : List ADecl → CGState → Except CDiag CGState
  | [], st => pure st
  | d :: ds, st =>
    match d with
    | .val _ _ => cgGlobals ds st
    | .var n => do
      let _ ← st.tbl.lookup "" n
      let (label, gs) := takeLabel st.gs
      cgGlobals ds { st with tbl := modifySym st.tbl "" n fun s => { s with globalLabel := label },
                             gs := { gs with data := gs.data ++ [Dir.label .plain label, Dir.data 0] } }
    | .array n e => do
      let _ ← st.tbl.lookup "" n
      let size ← arraySize n e
      let globalsOffset := st.globalsOffset + size
      let address := Asm.wrap32 (MAX_ADDRESS - globalsOffset)
      let (label, gs) := takeLabel st.gs
      cgGlobals ds { st with tbl := modifySym st.tbl "" n fun s => { s with globalLabel := label },
                             gs := { gs with data := gs.data ++ [Dir.label .plain label, Dir.data address] },
                             globalsOffset := globalsOffset }

/-- `FormalLocations` (2716-2736). -/
def formalLocations (scope : String) (frame : Nat) : List X.Formal → Int → SymTab → SymTab
  | [], _, tbl => tbl
  | f :: fs, fbo, tbl =>
    formalLocations scope frame fs (fbo + 1)
      (modifySym tbl scope f.name fun s => { s with stackOffset := fbo, frame := frame })

/-- `LocalDeclLocations` (2739-2760): returns the table and the frame offset (= size) reached. -/
def localDeclLocations (scope : String) (frame : Nat) : List ADecl → Nat → SymTab → Except CDiag (SymTab × Nat)
  | [], count, tbl => pure (tbl, count)
  | d :: ds, count, tbl =>
    match d with
    | .array n _ => .error (.unsupported ("local array " ++ n))
    | d =>
      localDeclLocations scope frame ds (count + 1)
        (modifySym tbl scope d.name fun s => { s with stackOffset := -(count : Int), frame := frame })

/-- `CodeGen::visitPost(VarDecl&)` firing for the LOCAL variables of a procedure (after its body
    has been generated): each gets an (unused) label and data word. -/
def cgLocalVars (scope : String) : List ADecl → SymTab → GS → SymTab × GS
  | [], tbl, gs => (tbl, gs)
  | d :: ds, tbl, gs =>
    match d with
    | .var n =>
      let (label, gs1) := takeLabel gs
      cgLocalVars scope ds (modifySym tbl scope n fun s => { s with globalLabel := label })
        { gs1 with data := gs1.data ++ [Dir.label .plain label, Dir.data 0] }
    | _ => cgLocalVars scope ds tbl gs

/-- `CodeGen::visitPre(Proc&)`, the walk over the procedure, `visitPost(Proc&)`. -/
def cgProc (i : Nat) (p : AProc) (st : CGState) : Except CDiag CGState := do
  let _ ← st.tbl.lookup "" p.name
  let (exitLabel, gs0) := takeLabel st.gs
  let tbl0 := modifySym st.tbl "" p.name fun s => { s with frame := i }
  let fbo : Int := 1 + (if p.isFunc then FB_PARAM_OFFSET_FUNC else FB_PARAM_OFFSET_PROC : Nat)
  let tbl1 := formalLocations p.name i p.formals fbo tbl0
  let (tbl2, nlocals) ← localDeclLocations p.name i p.locals 0 tbl1
  -- a fresh Frame (offset 0, size 0) on which LocalDeclLocations did incOffset once per local
  let gs1 : GS := { gs0 with offset := nlocals, size := nlocals }
  let ctx : Ctx := { tbl := tbl2, scope := p.name, frame := i, exitLabel := exitLabel }
  let (body, gs2) ← (genStmt ctx p.body).run gs1
  let (tbl3, gs3) := cgLocalVars p.name p.locals tbl2 gs2
  pure { st with tbl := tbl3, gs := gs3,
                 frames := st.frames ++ [{ size := gs2.size, exitLabel := exitLabel }],
                 instrs := st.instrs ++ [.prologue p.name] ++ body ++ [.epilogue p.name] }

def cgProcs : List AProc → Nat → CGState → Except CDiag CGState
  | [], _, st => pure st
  | p :: ps, i, st => do
    let st' ← cgProc i p st
    cgProcs ps (i + 1) st'

/-- `tree->accept(&codeGen)`. -/
def codeGen (tbl : SymTab) (P : AProgram) : Except CDiag CGOut := do
  let st0 : CGState := { tbl := tbl, instrs := startStub }
  let st1 ← cgGlobals P.globals st0
  let st2 ← cgProcs P.procs 0 st1
  pure { instrs := st2.instrs, data := st2.gs.data, tbl := st2.tbl, frames := st2.frames,
         globalsOffset := st2.globalsOffset }

end Hex.Xcmp
