import HexVerif.Xcmp.Parser
/-!
  xcmp::AstPrinter (xcmp.hpp 1079-1248) on the AST of `X/Syntax.lean`, without the `[loc=..]` and
  `[const=..]` decorations (the tie strips them from the real `--tree` output) and without the pruning
  of constant sub-trees (the real printer does not descend below an annotated operator node; the tie
  skips those children).  Used to compare the model parser's tree with the real parser's.
-/
namespace Hex.Xcmp
open Hex.X

def indent (n : Nat) : List Byte := List.replicate (2 * n) 32

def line (n : Nat) (s : String) (extra : List Byte := []) : List Byte := indent n ++ bytesOf s ++ extra ++ [10]

/-- `%d` of the `int sysCallId` a numeric callee becomes. -/
def sysIdText (id : Nat) : List Byte := intText (BitVec.ofNat 32 id)

/-- A numeric callee whose value converts to -1 is "not a system call": a call of the empty name. -/
def isNoSyscall (id : Nat) : Bool := id % 2 ^ 32 = 2 ^ 32 - 1

def binText : BinOp → String
  | .plus => "+" | .minus => "-" | .eq => "=" | .ne => "~=" | .ls => "<" | .le => "<=" | .gr => ">" | .ge => ">="
  | .and => "and" | .or => "or"

mutual
def printExpr (n : Nat) : Expr → List Byte
  | .num v => line n "number " (natDigits v.toNat)
  | .bool b => line n (if b then "boolean 1" else "boolean 0")
  | .str bs => line n "string " bs
  | .name x => line n ("varref " ++ x)
  | .sub x i => line n ("arraysubscript " ++ x) ++ printExpr (n + 1) i
  | .call f args => line n ("call " ++ f) ++ printExprs (n + 1) args
  | .syscall id args =>
    (if isNoSyscall id then line n "call " else line n "syscall " (sysIdText id)) ++ printExprs (n + 1) args
  | .un .neg e => line n "unaryop -" ++ printExpr (n + 1) e
  | .un .not e => line n "unaryop ~" ++ printExpr (n + 1) e
  | .bin op l r => line n ("binaryop " ++ binText op) ++ printExpr (n + 1) l ++ printExpr (n + 1) r
def printExprs (n : Nat) : List Expr → List Byte
  | [] => []
  | e :: es => printExpr n e ++ printExprs n es
end

mutual
def printStmt (n : Nat) : Stmt → List Byte
  | .skip => line n "skipstmt"
  | .stop => line n "stopstmt"
  | .ret e => line n "returnstmt" ++ printExpr (n + 1) e
  | .ite c t e => line n "ifstmt" ++ printExpr (n + 1) c ++ printStmt (n + 1) t ++ printStmt (n + 1) e
  | .while c b => line n "whilestmt" ++ printExpr (n + 1) c ++ printStmt (n + 1) b
  | .seq ss => line n "seqstmt" ++ printStmts (n + 1) ss
  | .assign x e => line n "assstmt" ++ line (n + 1) ("varref " ++ x) ++ printExpr (n + 1) e
  | .assignSub x i e =>
    line n "assstmt" ++ line (n + 1) ("arraysubscript " ++ x) ++ printExpr (n + 2) i ++ printExpr (n + 1) e
  | .call f args => line n "callstmt " ++ line (n + 1) ("call " ++ f) ++ printExprs (n + 2) args
  | .syscall id args =>
    if isNoSyscall id then line n "callstmt " ++ line (n + 1) "call " ++ printExprs (n + 2) args
    else line n "syscallstmt " (sysIdText id) ++ line (n + 1) "syscall " (sysIdText id) ++ printExprs (n + 2) args
def printStmts (n : Nat) : List Stmt → List Byte
  | [] => []
  | s :: ss => printStmt n s ++ printStmts n ss
end

def printDecl (n : Nat) : Decl → List Byte
  | .val x e => line n ("valdecl " ++ x) ++ printExpr (n + 1) e
  | .var x => line n ("vardecl " ++ x)
  | .array x e => line n ("arraydecl " ++ x) ++ printExpr (n + 1) e

def printFormal (n : Nat) : Formal → List Byte
  | .val x => line n ("valformal " ++ x)
  | .array x => line n ("arrayformal " ++ x)
  | .proc x => line n ("procformal " ++ x)
  | .func x => line n ("funcformal " ++ x)

def printProc (n : Nat) (p : Proc) : List Byte :=
  line n ("proc " ++ p.name) ++ (p.formals.map (printFormal (n + 1))).flatten ++
    (p.locals.map (printDecl (n + 1))).flatten ++ printStmt (n + 1) p.body

def printProgram (P : Program) : List Byte :=
  line 0 "program" ++ (P.globals.map (printDecl 1)).flatten ++ (P.procs.map (printProc 1)).flatten

end Hex.Xcmp
