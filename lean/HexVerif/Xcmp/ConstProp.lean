import HexVerif.Xcmp.Symbols
import HexVerif.Xcmp.ConstFold
/-!
  Model of xcmp, part 2: `ConstProp` (xcmp.hpp 1819-1924), the walk that annotates every
  expression with its constant value, sets the system-call id of calls made through a `val`
  name, and records the value of every `val` declaration.

  The walk is `Program::accept` with all recursion flags on: global declarations in order, then
  for every procedure its formals, its local declarations and its body; expressions post-order,
  left to right.  Folding itself is `foldBin`/`foldUn` of `Xcmp/ConstFold.lean`.
-/
namespace Hex.Xcmp
open Hex.X (BinOp UnOp)

/-- State of the visitor: the `ValDecl` nodes whose value is known (`ValDecl::valueKnown`), and
    `declaredLocals`. -/
structure CPState where
  known : List (NodeRef × CInt)
  declared : List String

/-- `ConstProp::lookupVal` (1827-1834).  A local that is declared later (or is the val being
    defined) does not hide a global of the same name. -/
def lookupVal (tbl : SymTab) (st : CPState) (scope name : String) : Except CDiag (Option CInt) := do
  let sym ← tbl.lookup scope name
  let sym ← if sym.scope ≠ "" ∧ ¬ st.declared.contains name then tbl.lookup "" name else pure sym
  if sym.isValDecl then
    match st.known.find? (fun e => e.1 = sym.node) with
    | some e => pure (some e.2)
    | none => pure none
  else pure none

/-- A number in name position is stored in an `int sysCallId`; −1 means "not a system call". -/
def sysIdOfNat (id : Nat) : Int := (BitVec.ofNat 32 id).toInt

/-- `ConstProp::visitPost(CallExpr&)` (1902-1916). -/
def cpCall (tbl : SymTab) (st : CPState) (scope : String) (sys : Int) (f : String) : Except CDiag Int := do
  let sys' ←
    if sys = -1 then
      match ← lookupVal tbl st scope f with
      | some v => pure (some v.toInt)
      | none => pure none
    else pure (some sys)
  match sys' with
  | none => pure sys
  | some id => if id ≥ 3 ∨ id < 0 then throw (.invalidSyscall id) else pure id

mutual
def cpExpr (tbl : SymTab) (st : CPState) (scope : String) : X.Expr → Except CDiag AExpr
  | .num v => pure (.num v (some v))
  | .bool b => pure (.bool b (some (b2w b)))
  | .str bs => pure (.str bs)
  | .name n => do pure (.name n (← lookupVal tbl st scope n))
  | .sub n i => do pure (.sub n (← cpExpr tbl st scope i))
  | .call f args => do
    let args' ← cpArgs tbl st scope args
    let sys ← cpCall tbl st scope (-1) f
    pure (.call sys f args')
  | .syscall id args => do
    let args' ← cpArgs tbl st scope args
    let sys ← cpCall tbl st scope (sysIdOfNat id) ""
    pure (.call sys "" args')
  | .un op e => do
    let e' ← cpExpr tbl st scope e
    pure (.un op e' (e'.const.map (foldUn op)))
  | .bin op l r => do
    let l' ← cpExpr tbl st scope l
    let r' ← cpExpr tbl st scope r
    let c := match l'.const, r'.const with
      | some a, some b => some (foldBin op a b)
      | _, _ => none
    pure (.bin op l' r' c)
def cpArgs (tbl : SymTab) (st : CPState) (scope : String) : List X.Expr → Except CDiag (List AExpr)
  | [] => pure []
  | e :: es => do
    let e' ← cpExpr tbl st scope e
    let es' ← cpArgs tbl st scope es
    pure (e' :: es')
end

mutual
def cpStmt (tbl : SymTab) (st : CPState) (scope : String) : X.Stmt → Except CDiag AStmt
  | .skip => pure .skip
  | .stop => pure .stop
  | .ret e => do pure (.ret (← cpExpr tbl st scope e))
  | .ite c t e => do
    let c' ← cpExpr tbl st scope c
    let t' ← cpStmt tbl st scope t
    let e' ← cpStmt tbl st scope e
    pure (.ite c' t' e')
  | .while c b => do
    let c' ← cpExpr tbl st scope c
    let b' ← cpStmt tbl st scope b
    pure (.while c' b')
  | .seq ss => do pure (.seq (← cpStmts tbl st scope ss))
  | .assign n e => do
    -- the LHS is a VarRefExpr and is visited first (its annotation is never used)
    let _ ← lookupVal tbl st scope n
    pure (.assign n (← cpExpr tbl st scope e))
  | .assignSub n i e => do
    let i' ← cpExpr tbl st scope i
    let e' ← cpExpr tbl st scope e
    pure (.assignSub n i' e')
  | .call f args => do
    let args' ← cpArgs tbl st scope args
    let sys ← cpCall tbl st scope (-1) f
    pure (.call sys f args')
  | .syscall id args => do
    let args' ← cpArgs tbl st scope args
    let sys ← cpCall tbl st scope (sysIdOfNat id) ""
    pure (.call sys "" args')
def cpStmts (tbl : SymTab) (st : CPState) (scope : String) : List X.Stmt → Except CDiag (List AStmt)
  | [] => pure []
  | s :: ss => do
    let s' ← cpStmt tbl st scope s
    let ss' ← cpStmts tbl st scope ss
    pure (s' :: ss')
end

/-- `declareLocal`: only inside a procedure. -/
def declareLocal (st : CPState) (scope name : String) : CPState :=
  if scope ≠ "" then { st with declared := name :: st.declared } else st

/-- Declarations of one scope in order; `mk i` is the node identity of the i-th one. -/
def cpDecls (tbl : SymTab) (scope : String) (mk : Nat → NodeRef) :
    List X.Decl → Nat → CPState → Except CDiag (List ADecl × CPState)
  | [], _, st => pure ([], st)
  | d :: ds, i, st => do
    let (d', st') ←
      match d with
      | .val n e => do
        let e' ← cpExpr tbl st scope e
        match e'.const with
        | none => throw (.nonConstVal n)
        | some v =>
          pure (ADecl.val n e', declareLocal { st with known := (mk i, v) :: st.known } scope n)
      | .var n => pure (ADecl.var n, declareLocal st scope n)
      | .array n e => do
        let e' ← cpExpr tbl st scope e
        pure (ADecl.array n e', st)
    let (ds', st'') ← cpDecls tbl scope mk ds (i + 1) st'
    pure (d' :: ds', st'')

def cpProcs (tbl : SymTab) : List X.Proc → Nat → CPState → Except CDiag (List AProc)
  | [], _, _ => pure []
  | p :: ps, i, st => do
    -- visitPre(Proc): declaredLocals.clear(); then the formals
    let st1 : CPState := { st with declared := (p.formals.map X.Formal.name).reverse }
    let (locals, st2) ← cpDecls tbl p.name (NodeRef.ldecl i) p.locals 0 st1
    let body ← cpStmt tbl st2 p.name p.body
    let ps' ← cpProcs tbl ps (i + 1) st2
    pure ({ isFunc := p.isFunc, name := p.name, formals := p.formals, locals := locals, body := body } :: ps')

/-- `tree->accept(&constProp)`. -/
def constProp (tbl : SymTab) (P : X.Program) : Except CDiag AProgram := do
  let (globals, st) ← cpDecls tbl "" NodeRef.gdecl P.globals 0 { known := [], declared := [] }
  let procs ← cpProcs tbl P.procs 0 st
  pure { globals := globals, procs := procs }

end Hex.Xcmp
