import HexVerif.Xcmp.CodeGen
/-!
  Model of xcmp, part 5: `LowerDirectives` (xcmp.hpp 2854-2966): the intermediate directives
  become hexasm directives.  `SP_VALUE` becomes the initial stack pointer word followed by the
  whole data vector (globals, constant pool, strings, in generation order); `PROLOGUE` /
  `EPILOGUE` become the entry and exit sequences of their procedure; a frame-base relative access
  with offset `o` becomes the same access at `size - 1 + o` from the stack pointer, `size` being
  the FINAL size of the frame it refers to.
-/
namespace Hex.Xcmp
open Hex.Asm (Dir LabelKind)

def frameOf (out : CGOut) (i : Nat) : FrameInfo := out.frames.getD i { size := 0, exitLabel := "" }

/-- The initial stack pointer: two words are left free above it for `sp[1]` and `sp[2]`. -/
def spValue (globalsOffset : Int) : Int := Asm.wrap32 (MAX_ADDRESS - globalsOffset - 1 - FB_PARAM_OFFSET_FUNC)

/-- `case hexasm::Token::PROLOGUE` (2875-2894). -/
def lowerPrologue (type : SymType) (name : String) (size : Nat) : List Dir :=
  (if type = .func then [Dir.label .func name] else []) ++
  (if type = .proc then [Dir.label .proc name] else []) ++
  [.imm 0x1 SP_OFFSET, .imm 0x8 0] ++
  (if size > 0 then [.imm 0x3 (-(size : Int)), .opr 1, .imm 0x2 SP_OFFSET] else [])

/-- `case hexasm::Token::EPILOGUE` (2895-2931).  (A symbol that is neither FUNC nor PROC would
    fall through into the next case with a null `dynamic_cast`; the symbol of a procedure always
    is one of the two.) -/
def lowerEpilogue (type : SymType) (f : FrameInfo) : List Dir :=
  let contract : List Dir := if f.size > 0 then [.imm 0x3 (f.size : Int), .opr 1, .imm 0x2 SP_OFFSET] else []
  [Dir.label .plain f.exitLabel] ++
  (if type = .func then
     [.imm 0x1 SP_OFFSET, .imm 0x8 ((f.size : Int) + 1)] ++ contract ++ [.imm 0x7 (f.size : Int), .opr 0]
   else if type = .proc then
     [.imm 0x1 SP_OFFSET] ++ contract ++ [.imm 0x7 (f.size : Int), .opr 0]
   else [])

def fbOpc : FbKind → Nat
  | .ldai => 0x6 | .ldbi => 0x7 | .stai => 0x8

/-- One iteration of the loop of the `LowerDirectives` constructor. -/
def lowerOne (out : CGOut) : IDir → List Dir
  | .dir d => [d]
  | .spValue => Dir.data (spValue out.globalsOffset) :: out.data
  | .prologue name =>
    match out.tbl.find? ("", name) with
    | some sym => lowerPrologue sym.type name (frameOf out sym.frame).size
    | none => []
  | .epilogue name =>
    match out.tbl.find? ("", name) with
    | some sym => lowerEpilogue sym.type (frameOf out sym.frame)
    | none => []
  | .fb k frame off => [.imm (fbOpc k) (((frameOf out frame).size : Int) - 1 + off)]

def lowerCode (out : CGOut) : Code → List Dir
  | [] => []
  | d :: ds => lowerOne out d ++ lowerCode out ds

/-- `xcmp::LowerDirectives lowerDirectives(symbolTable, codeGen)`. -/
def lower (out : CGOut) : List Dir := lowerCode out out.instrs

end Hex.Xcmp
