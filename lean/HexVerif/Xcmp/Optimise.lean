import HexVerif.Xcmp.ConstProp
/-!
  Model of xcmp, part 3: `OptimiseExpr` (xcmp.hpp 1930-1987): `~= >= > <=` are rewritten to
  expressions over `= < ~`, and a non-constant monadic minus to `0 - x`.  The nodes built by a
  rewrite have no constant annotation (not even when the node they replace had one), and the
  literal `0` of `0 - x` has none either.

  `UnaryOpExpr::accept` / `BinaryOpExpr::accept` do not descend into a node that is constant
  (`if (!isConst() && visitor->shouldRecurseOp())`), but `visitPost` still runs on it.
-/
namespace Hex.Xcmp
open Hex.X (BinOp UnOp)

mutual
def optExpr : AExpr → AExpr
  | .num v c => .num v c
  | .bool b c => .bool b c
  | .str bs => .str bs
  | .name n c => .name n c
  | .sub n i => .sub n (optExpr i)
  | .call sys f args => .call sys f (optArgs args)
  | .un op e c =>
    let e' := if c.isSome then e else optExpr e
    -- visitPost(UnaryOpExpr&)
    if c.isNone ∧ op = .neg then .bin .minus (.num 0 none) e' none
    else .un op e' c
  | .bin op l r c =>
    let l' := if c.isSome then l else optExpr l
    let r' := if c.isSome then r else optExpr r
    -- visitPost(BinaryOpExpr&)
    match op with
    | .ne => .un .not (.bin .eq l' r' none) none      -- LHS ~= RHS -> not(LHS = RHS)
    | .ge => .un .not (.bin .ls l' r' none) none      -- LHS >= RHS -> not(LHS < RHS)
    | .gr => .bin .ls r' l' none                      -- LHS > RHS  -> RHS < LHS
    | .le => .un .not (.bin .ls r' l' none) none      -- LHS <= RHS -> not(RHS < LHS)
    | _ => .bin op l' r' c
def optArgs : List AExpr → List AExpr
  | [] => []
  | e :: es => optExpr e :: optArgs es
end

mutual
def optStmt : AStmt → AStmt
  | .skip => .skip
  | .stop => .stop
  | .ret e => .ret (optExpr e)
  | .ite c t e => .ite (optExpr c) (optStmt t) (optStmt e)
  | .while c b => .while (optExpr c) (optStmt b)
  | .seq ss => .seq (optStmts ss)
  | .assign n e => .assign n (optExpr e)
  | .assignSub n i e => .assignSub n (optExpr i) (optExpr e)
  | .call sys f args => .call sys f (optArgs args)
def optStmts : List AStmt → List AStmt
  | [] => []
  | s :: ss => optStmt s :: optStmts ss
end

def optDecl : ADecl → ADecl
  | .val n e => .val n (optExpr e)
  | .var n => .var n
  | .array n e => .array n (optExpr e)

def optProc (p : AProc) : AProc :=
  { p with locals := p.locals.map optDecl, body := optStmt p.body }

/-- `tree->accept(&optimiseExpr)`. -/
def optimise (P : AProgram) : AProgram :=
  { globals := P.globals.map optDecl, procs := P.procs.map optProc }

end Hex.Xcmp
