import HexVerif.Xcmp.Peephole
/-!
  Model of xcmp, part 7: `Driver::run` (xcmp.hpp 3132-3232) from the parsed tree on:
  CreateSymbols, ConstProp, OptimiseExpr, CodeGen, LowerDirectives, OptimiseDirectives,
  hexasm::CodeGen, emitBin.
-/
namespace Hex.Xcmp
open Hex.Asm (Dir)

/-- Everything the driver's actions can print. -/
structure Stages where
  cg : CGOut                       -- EMIT_INTERMEDIATE_INSTS
  lowered : List Dir               -- EMIT_LOWERED_INSTS
  optimised : List Dir             -- EMIT_OPTIMISED_INSTS

/-- The front half: up to the directive list handed to `hexasm::CodeGen`; `j` is the content of
    every uninitialised `Symbol::stackOffset`. -/
def stagesJ (j : Int) (P : X.Program) : Except CDiag Stages := do
  let tbl ← createSymbolsJ j P
  let A ← constProp tbl P
  let A' := optimise A
  let cg ← codeGen tbl A'
  let lowered := lower cg
  pure { cg := cg, lowered := lowered, optimised := peephole lowered }

def stages (P : X.Program) : Except CDiag Stages := stagesJ 0 P

/-- The directive list handed to the assembler. -/
def compileDirs (P : X.Program) : Except CDiag (List Dir) := do
  let s ← stages P
  pure s.optimised

/-- xcmp-built directives carry the default `Location`. -/
def withLoc (ds : List Dir) : List (Dir × Asm.Loc) := ds.map fun d => (d, ⟨0, 0⟩)

def assembleDirs (ds : List Dir) : Except CDiag Asm.Image :=
  match Asm.assemble (withLoc ds) with
  | .error e => .error (.asm e)
  | .ok none => .error .asmFuel
  | .ok (some img) => .ok img

/-- **The compiler**: X program to assembled image. -/
def compile (P : X.Program) : Except CDiag Asm.Image := do
  let ds ← compileDirs P
  assembleDirs ds

/-- The compiler with every uninitialised `Symbol::stackOffset` holding `j` (C11). -/
def compileJ (j : Int) (P : X.Program) : Except CDiag Asm.Image := do
  let s ← stagesJ j P
  assembleDirs s.optimised

/-- The bytes of the file `xcmp` writes. -/
def compileFile (P : X.Program) : Except CDiag (List Byte) := do
  let img ← compile P
  pure (Asm.fileBytes img)

end Hex.Xcmp
