import HexVerif.X.Syntax
/-!
  Model of xcmp's compile-time evaluation and of the value its generated code computes at run time
  (property C07).  Written in the shape of the C++ (xcmp.hpp, tree with the `fix:` commits of branch
  `xfixes`):

  * `foldBin`/`foldUn`   = `ConstProp::visitPost(BinaryOpExpr/UnaryOpExpr)` (1819-1855): `+`, `-` and
    monadic `-` wrap (after the D14 repair), the relational operators compare the two `int`s
    mathematically, `and`/`or`/`~` test for zero.
  * `rtBin`/`rtUn`       = what the instruction sequence emitted by `ExprCodeGen` (2130-2242) leaves
    in `areg` when the operand values are `a` and `b`: ADD/SUB wrap; `=` subtracts and tests for zero
    (BRZ); `<` subtracts and tests the sign bit of the wrapped difference (BRN) - with the shortcuts
    for a constant-zero operand, which compute the same function; `~= >= > <=` are what `OptimiseExpr`
    (1895-1952) rewrites them to; `and`/`or` deliver the second operand unnormalised; `~` tests for
    zero; monadic `-` is `0 - x`.
  * `CExpr`, `constVal`, `codeVal`, `runVal`: expression trees over constants and run-time leaves,
    the constant annotation `ConstProp` computes, the value of the code generated after `ConstProp` and
    `OptimiseExpr` (a constant sub-tree is materialised by `genConst` of its folded value, except that
    a `~= >= > <=` at the ROOT of a maximal constant sub-tree is rewritten and evaluated at run time
    from its folded operands - see `codeVal`), and the value when every operator is evaluated at run time.
-/
namespace Hex.Xcmp
open Hex.X (BinOp UnOp)

def b2w (b : Bool) : Word := if b then 1 else 0

/-- `ConstProp::visitPost(BinaryOpExpr)`: the folded value of `a op b`. -/
def foldBin (op : BinOp) (a b : Word) : Word :=
  match op with
  | .plus => a + b
  | .minus => a - b
  | .eq => b2w (a.toInt == b.toInt)
  | .ne => b2w (a.toInt != b.toInt)
  | .ls => b2w (decide (a.toInt < b.toInt))
  | .le => b2w (decide (a.toInt ≤ b.toInt))
  | .gr => b2w (decide (a.toInt > b.toInt))
  | .ge => b2w (decide (a.toInt ≥ b.toInt))
  | .and => if a = 0 then 0 else (if b = 0 then 0 else 1)
  | .or => if a ≠ 0 then 1 else (if b = 0 then 0 else 1)

/-- `ConstProp::visitPost(UnaryOpExpr)`. -/
def foldUn (op : UnOp) (a : Word) : Word :=
  match op with
  | .neg => 0 - a
  | .not => if a = 0 then 1 else 0

/-- `LDAC 0 / LDAC 1` selected by `BRZ`. -/
def rtIsZero (a : Word) : Word := if a = 0 then 1 else 0
/-- `LDAC 0 / LDAC 1` selected by `BRN` (sign bit of areg). -/
def rtIsNeg (a : Word) : Word := if a.msb then 1 else 0

def rtEq (a b : Word) : Word := rtIsZero (a - b)
def rtLs (a b : Word) : Word := rtIsNeg (a - b)

/-- Value the generated code computes for `a op b` from run-time operand values. -/
def rtBin (op : BinOp) (a b : Word) : Word :=
  match op with
  | .plus => a + b
  | .minus => a - b
  | .eq => rtEq a b
  | .ne => rtIsZero (rtEq a b)            -- ~(a = b)
  | .ls => rtLs a b
  | .ge => rtIsZero (rtLs a b)            -- ~(a < b)
  | .gr => rtLs b a                       -- b < a
  | .le => rtIsZero (rtLs b a)            -- ~(b < a)
  | .and => if a = 0 then a else b        -- BRZ end; value of the second operand
  | .or => if a = 0 then b else a

def rtUn (op : UnOp) (a : Word) : Word :=
  match op with
  | .neg => 0 - a
  | .not => rtIsZero a

/-- The shortcuts of the code generator compute the same functions: `x = 0` and `0 = x` test the
    other operand for zero, `x < 0` tests the sign of `x`. -/
theorem rtEq_zero_right (a : Word) : rtEq a 0 = rtIsZero a := by simp [rtEq]
theorem rtEq_zero_left (b : Word) : rtEq 0 b = rtIsZero b := by
  unfold rtEq rtIsZero
  by_cases h : b = 0
  · subst h; rfl
  · have h1 : ¬ ((0 : Word) - b = 0) := by
      intro h0; apply h; bv_omega
    rw [if_neg h1, if_neg h]
theorem rtLs_zero_right (a : Word) : rtLs a 0 = rtIsNeg a := by simp [rtLs]

/-- The difference of the operands is representable: the domain on which the ordering comparisons
    of the generated code mean what X says. -/
def DiffFits (a b : Word) : Prop :=
  -2147483648 ≤ a.toInt - b.toInt ∧ a.toInt - b.toInt ≤ 2147483647

instance (a b : Word) : Decidable (DiffFits a b) := by unfold DiffFits; infer_instance

def IsBool (a : Word) : Prop := a = 0 ∨ a = 1
instance (a : Word) : Decidable (IsBool a) := by unfold IsBool; infer_instance

/-- Which operators are ordering comparisons. -/
def ordering : BinOp → Bool
  | .ls | .le | .gr | .ge => true
  | _ => false

/-- The operators whose operands must be Boolean-typed. -/
def logical : BinOp → Bool
  | .and | .or => true
  | _ => false

/-! ### Expression trees -/

inductive CExpr where
  | num (v : Word)
  | leaf (i : Nat)                       -- anything evaluated at run time: variable, subscript, call
  | un (op : UnOp) (e : CExpr)
  | bin (op : BinOp) (l r : CExpr)
  deriving Repr, Inhabited

/-- The constant annotation `ConstProp` leaves on a node (`Expr::constValue`). -/
def constVal : CExpr → Option Word
  | .num v => some v
  | .leaf _ => none
  | .un op e => (constVal e).map (foldUn op)
  | .bin op l r =>
    match constVal l, constVal r with
    | some a, some b => some (foldBin op a b)
    | _, _ => none

/-- Operators whose nodes `OptimiseExpr` replaces by fresh, un-annotated nodes. -/
def rewritten : BinOp → Bool
  | .ne | .ge | .gr | .le => true
  | _ => false

/-- Value of the code generated for the tree after `ConstProp` and `OptimiseExpr`.
    `OptimiseExpr` walks the tree with the default visitor, whose `accept` does not descend into a
    node that carries a constant annotation (`if (!isConst() && shouldRecurseOp())`, xcmp.hpp 741-768):
    of every maximal constant sub-tree only the ROOT is visited.  If that root is one of `~= >= > <=`
    it is replaced by fresh, un-annotated nodes over its (still annotated, hence folded) operands and
    is therefore evaluated at run time from the folded operand values; any other constant root, and
    every constant node below a constant root, is materialised by `genConst` of its folded value.
    Nodes without annotation are visited recursively and evaluated at run time. -/
def codeVal (ρ : Nat → Word) : CExpr → Word
  | .num v => v
  | .leaf i => ρ i
  | .un op e =>
    match constVal (.un op e) with
    | some c => c
    | none => rtUn op (codeVal ρ e)
  | .bin op l r =>
    match constVal l, constVal r with
    | some a, some b => if rewritten op then rtBin op a b else foldBin op a b
    | _, _ => rtBin op (codeVal ρ l) (codeVal ρ r)

/-- Value when every operator is evaluated by generated code at run time (the program in which all
    constants are supplied through variables). -/
def runVal (ρ : Nat → Word) : CExpr → Word
  | .num v => v
  | .leaf i => ρ i
  | .un op e => rtUn op (runVal ρ e)
  | .bin op l r => rtBin op (runVal ρ l) (runVal ρ r)

/-- Side condition under which folding a node is sound: Boolean-typed operands for `and or ~`
    (the property's own restriction) and, for the ordering comparisons, a representable difference
    (the region excluded by finding D23). Checked at every node whose operands are all constant. -/
def FoldSafe : CExpr → Prop
  | .num _ => True
  | .leaf _ => True
  | .un op e => FoldSafe e ∧
    (match op, constVal e with
     | .not, some a => IsBool a
     | _, _ => True)
  | .bin op l r => FoldSafe l ∧ FoldSafe r ∧
    (match constVal l, constVal r with
     | some a, some b =>
       (match op with
        | .and | .or => IsBool a ∧ IsBool b
        | .ls | .le | .gr | .ge => DiffFits a b ∧ DiffFits b a
        | _ => True)
     | _, _ => True)

end Hex.Xcmp
