import HexVerif.Xcmp.Lexer
import HexVerif.X.Syntax
/-!
  xcmp::Parser (xcmp.hpp 1254-1663) over the token results of `Xcmp.lexAll`, producing the AST of
  `X/Syntax.lean` or the diagnostic the C++ throws (class and location).

  Written function by function in the shape of the C++.  The parser pulls tokens on demand, so a
  lexical diagnostic surfaces exactly when `getNextToken()` reaches the offending token (`advance`);
  a syntax error before that point wins.  Locations are `lexer.getLocation()` at the moment the C++
  captures them (function entry for `ParserTokenError`, the throw point for the others).
  Quirks kept: `STRING` reads `lexer.getString()` AFTER advancing; a number in name position becomes
  a system call whose id is the literal converted to `int` (4294967295 = -1 = "not a system call",
  i.e. a call of the empty name); `parseProgram` skips one arbitrary token after the last procedure
  before it expects the end of file (the pinned unit test `binary_ls_rhs_then_lhs` compiles a source
  with a surplus `)` and relies on it, so this laxity is kept).
  Recursion is bounded by `fuel`; `Properties/C09.lean` shows what is proved about it.
-/
namespace Hex.Xcmp
open Hex.X

inductive DiagKind where
  | charConst | token                          -- from the lexer
  | unexpectedToken | expectedName | parserToken
  deriving DecidableEq, Repr, Inhabited

structure Diag where
  kind : DiagKind
  loc : Loc
  deriving DecidableEq, Repr, Inhabited

inductive PErr where
  | diag (d : Diag)
  | fuel                                       -- the recursion bound of the model was hit
  | fault (what : String)                      -- a partial C++ operation would be executed
  deriving DecidableEq, Repr, Inhabited

/-- Parser state: the token `getLastToken()` returns and what the lexer will yield next. -/
structure PState where
  cur : LTok
  rest : List LItem

abbrev P := StateT PState (Except PErr)

def lexDiag (e : LexErr) : PErr :=
  .diag ⟨(match e.kind with | .charConst => .charConst | .token => .token), e.loc⟩

/-- `lexer.getNextToken()`. Past the real end of input the lexer keeps yielding END_OF_FILE and
    keeps counting characters. -/
def advance : P Unit := fun s =>
  match s.rest with
  | [] => .ok ((), { s with cur := { s.cur with tok := .END_OF_FILE, loc := ⟨s.cur.loc.line, s.cur.loc.col + 1⟩ } })
  | .tok t :: r => .ok ((), { cur := t, rest := r })
  | .err e :: _ => .error (lexDiag e)

def curTok : P Tok := fun s => .ok (s.cur.tok, s)
def curLoc : P Loc := fun s => .ok (s.cur.loc, s)
def cur : P LTok := fun s => .ok (s.cur, s)
/-- `lexer.getString()`. -/
def getString : P (List Byte) := fun s => .ok (s.cur.str, s)
def fail {α} (k : DiagKind) (l : Loc) : P α := fun _ => .error (.diag ⟨k, l⟩)
def outOfFuel {α} : P α := fun _ => .error .fuel
def faultP {α} (what : String) : P α := fun _ => .error (.fault what)

def expect (t : Tok) : P Unit := do
  let c ← cur
  if c.tok ≠ t then fail .unexpectedToken c.loc else advance

def nameOf (bs : List Byte) : String := String.ofList (bs.map fun b => Char.ofNat b.toNat)

def parseIdentifier : P String := do
  let c ← cur
  if c.tok = .IDENTIFIER then do advance; pure (nameOf c.ident)
  else fail .expectedName c.loc

def binOpOf : Tok → Option BinOp
  | .PLUS => some .plus | .MINUS => some .minus | .OR => some .or | .AND => some .and | .EQ => some .eq
  | .NE => some .ne | .LS => some .ls | .LE => some .le | .GR => some .gr | .GE => some .ge | _ => none

def isAssociative : BinOp → Bool
  | .and | .or | .plus => true
  | _ => false

mutual

/-- `parseBinOpRHS(op)`: `op` is given with its token for the comparison `op == lexer.getLastToken()`. -/
def parseBinOpRHS : Nat → BinOp → Tok → P Expr
  | 0, _, _ => outOfFuel
  | fuel + 1, op, opTok => do
    let element ← parseElement fuel
    let t ← curTok
    if isAssociative op && t = opTok then do
      advance
      let rhs ← parseBinOpRHS fuel op opTok
      pure (.bin op element rhs)
    else pure element

def parseExpr : Nat → P Expr
  | 0 => outOfFuel
  | fuel + 1 => do
    let t ← curTok
    if t = .MINUS then do
      advance
      let e ← parseElement fuel
      pure (.un .neg e)
    else if t = .NOT then do
      advance
      let e ← parseElement fuel
      pure (.un .not e)
    else do
      let element ← parseElement fuel
      let t ← curTok
      match binOpOf t with
      | some op => do
        advance
        let rhs ← parseBinOpRHS fuel op t
        pure (.bin op element rhs)
      | none => pure element

/-- `parseExprList` after its first element: `{ "," <expr> }`. -/
def parseExprListTail : Nat → P (List Expr)
  | 0 => outOfFuel
  | fuel + 1 => do
    let t ← curTok
    if t = .COMMA then do
      advance
      let e ← parseExpr fuel
      let es ← parseExprListTail fuel
      pure (e :: es)
    else pure []

/-- The actuals after `(` has been seen as the current token: `"(" ")"` or `"(" <expr-list> ")"`. -/
def parseActuals : Nat → P (List Expr)
  | 0 => outOfFuel
  | fuel + 1 => do
    advance                                   -- `lexer.getNextToken() == Token::RPAREN`
    let t ← curTok
    if t = .RPAREN then do advance; pure []
    else do
      let e ← parseExpr fuel
      let es ← parseExprListTail fuel
      expect .RPAREN
      pure (e :: es)

/-- The `case Token::IDENTIFIER` of `parseElement`: variable, subscript or call. -/
def parseIdentElement : Nat → P Expr
  | 0 => outOfFuel
  | fuel + 1 => do
    let name ← parseIdentifier
    let t ← curTok
    if t = .LBRACKET then do
      advance
      let e ← parseExpr fuel
      expect .RBRACKET
      pure (.sub name e)
    else if t = .LPAREN then do
      let args ← parseActuals fuel
      pure (.call name args)
    else pure (.name name)

def parseElement : Nat → P Expr
  | 0 => outOfFuel
  | fuel + 1 => do
    let c ← cur
    match c.tok with
    | .IDENTIFIER => parseIdentElement fuel
    | .NUMBER => do
      advance
      let t ← curTok
      if t = .LPAREN then do
        let args ← parseActuals fuel
        pure (.syscall c.value.toNat args)
      else pure (.num c.value)
    | .STRING => do
      advance
      let str ← getString                     -- `lexer.getString()` is read after the advance
      pure (.str str)
    | .TRUE => do advance; pure (.bool true)
    | .FALSE => do advance; pure (.bool false)
    | .LPAREN => do
      advance
      let e ← parseExpr fuel
      expect .RPAREN
      pure e
    | _ => fail .parserToken c.loc

end

def parseDecl (fuel : Nat) : P Decl := do
  let tok ← curTok
  let location ← curLoc
  match tok with
  | .VAL => do
    advance
    let name ← parseIdentifier
    expect .EQ
    let e ← parseExpr fuel
    expect .SEMICOLON
    pure (.val name e)
  | .VAR => do
    advance
    let name ← parseIdentifier
    expect .SEMICOLON
    pure (.var name)
  | .ARRAY => do
    advance
    let name ← parseIdentifier
    expect .LBRACKET
    let e ← parseExpr fuel
    expect .RBRACKET
    expect .SEMICOLON
    pure (.array name e)
  | _ => fail .parserToken location

/-- `parseLocalDecls` / `parseGlobalDecls`: declarations while the current token starts one. -/
def parseDecls (allowArray : Bool) : Nat → P (List Decl)
  | 0 => outOfFuel
  | fuel + 1 => do
    let t ← curTok
    if t = .VAL || t = .VAR || (allowArray && t = .ARRAY) then do
      let d ← parseDecl fuel
      let ds ← parseDecls allowArray fuel
      pure (d :: ds)
    else pure []

def parseFormal : P Formal := do
  let tok ← curTok
  let location ← curLoc
  match tok with
  | .VAL => do advance; let n ← parseIdentifier; pure (.val n)
  | .ARRAY => do advance; let n ← parseIdentifier; pure (.array n)
  | .PROC => do advance; let n ← parseIdentifier; pure (.proc n)
  | .FUNC => do advance; let n ← parseIdentifier; pure (.func n)
  | _ => fail .parserToken location

def parseFormals : Nat → P (List Formal)
  | 0 => outOfFuel
  | fuel + 1 => do
    let f ← parseFormal
    let t ← curTok
    if t = .COMMA then do
      advance
      let fs ← parseFormals fuel
      pure (f :: fs)
    else pure [f]

mutual

def parseStatement : Nat → P Stmt
  | 0 => outOfFuel
  | fuel + 1 => do
    let location ← curLoc
    let tok ← curTok
    match tok with
    | .SKIP => do advance; pure .skip
    | .STOP => do advance; pure .stop
    | .RETURN => do advance; let e ← parseExpr fuel; pure (.ret e)
    | .IF => do
      advance
      let cond ← parseExpr fuel
      expect .THEN
      let t ← parseStatement fuel
      expect .ELSE
      let e ← parseStatement fuel
      pure (.ite cond t e)
    | .WHILE => do
      advance
      let cond ← parseExpr fuel
      expect .DO
      let b ← parseStatement fuel
      pure (.while cond b)
    | .BEGIN => do
      advance
      let s ← parseStatement fuel
      let ss ← parseStatementsTail fuel
      expect .END
      pure (.seq (s :: ss))
    | .IDENTIFIER => do
      let element ← parseElement fuel
      match element with
      | .call f args => pure (.call f args)
      | .name n => do expect .ASS; let e ← parseExpr fuel; pure (.assign n e)
      | .sub n i => do expect .ASS; let e ← parseExpr fuel; pure (.assignSub n i e)
      -- The C++ builds an AssStatement around whatever `parseElement` returned; a target that is
      -- neither a variable nor a subscript reaches `assert(0 && "unexpected target of assignment
      -- statement")` in StmtCodeGen (compiled out: no code, silently). Shown unreachable.
      | _ => faultP "assignment target is neither a variable nor a subscript"
    | .NUMBER => do
      let element ← parseElement fuel
      match element with
      | .syscall id args => pure (.syscall id args)
      | _ => fail .parserToken location          -- "invalid statement beginning with number"
    | _ => fail .parserToken location

def parseStatementsTail : Nat → P (List Stmt)
  | 0 => outOfFuel
  | fuel + 1 => do
    let t ← curTok
    if t = .SEMICOLON then do
      advance
      let s ← parseStatement fuel
      let ss ← parseStatementsTail fuel
      pure (s :: ss)
    else pure []

end

def parseProcDecl (fuel : Nat) : P Proc := do
  let t ← curTok
  let isFunction := t = .FUNC
  advance
  let name ← parseIdentifier
  expect .LPAREN
  let t ← curTok
  let formals ← if t = .RPAREN then do advance; pure [] else do
    let fs ← parseFormals fuel
    expect .RPAREN
    pure fs
  expect .IS
  let t ← curTok
  let decls ← if t = .VAL || t = .VAR then parseDecls false fuel else pure []
  let body ← parseStatement fuel
  pure { isFunc := isFunction, name, formals, locals := decls, body }

def parseProcDecls : Nat → P (List Proc)
  | 0 => outOfFuel
  | fuel + 1 => do
    let t ← curTok
    if t = .PROC || t = .FUNC then do
      let p ← parseProcDecl fuel
      let ps ← parseProcDecls fuel
      pure (p :: ps)
    else pure []

def parseProgramP (fuel : Nat) : P Program := do
  let globals ← parseDecls true fuel
  let procs ← parseProcDecls fuel
  advance                                    -- skips one token, whatever it is
  expect .END_OF_FILE
  pure { globals, procs }

/-- `Parser::parseProgram` on a token sequence. -/
def parseItems (items : List LItem) (fuel : Nat) : Except PErr Program :=
  match items with
  | .tok t :: r => (parseProgramP fuel |>.run { cur := t, rest := r }).map (·.1)
  | .err e :: _ => .error (lexDiag e)
  | [] => .error .fuel                       -- unreachable: `lexAll` is never empty (`lexAll_ne_nil`)

/-- The front end with an explicit junk value for the uninitialised `Lexer::value`. -/
def parseProgramJ (junk : Word) (src : List Byte) (fuel : Nat) : Except PErr Program :=
  parseItems (lexAllJ junk src) fuel

/-- `Parser::parseProgram` on a source buffer. -/
def parseProgram (src : List Byte) (fuel : Nat) : Except PErr Program :=
  match lexAll src with
  | .tok t :: r => (parseProgramP fuel |>.run { cur := t, rest := r }).map (·.1)
  | .err e :: _ => .error (lexDiag e)
  | [] => .error .fuel                       -- unreachable: `lexAll` is never empty (`lexAll_ne_nil`)

/-- The recursion bound the driver and the theorems use: 8 units per lexical item plus 8
    (`Lemmas/XcmpFuel.lean` proves that it always suffices: `parseProgram_no_fuel`). -/
def fuelFor (src : List Byte) : Nat := 8 * (lexAll src).length + 8

def parse (src : List Byte) : Except PErr Program := parseProgram src (fuelFor src)

end Hex.Xcmp
