import HexVerif.Am.Machine
/-!
  `IAm`: the abstract machine `Am` seen at the level of the DIRECTIVE LIST - the program counter is
  an index into the list, labels are resolved by name, and only the shapes of directives that
  xcmp emits have a rule (an operand-taking branch with a literal operand, or `LDBC label`, has
  none: a configuration there is stuck, which only shrinks what the relation can prove).  Likewise
  `BRB` only returns to a label directive, and `STAI` never writes word 1 (the stack pointer): both
  hold of everything xcmp generates and make the peephole pass a simulation.

  The layout enters through `Env.addr` (byte address of a directive index), used for exactly
  three things: the value `LDAP label` loads, the word address of a data label, and the target of
  `BRB`.  `Env.isCode` marks the memory words that hold instruction bytes; a store into one has no
  rule.  `Lemmas/XcmpIAm.lean` shows every `IAm` step to be one `Am` step (or none, at a label)
  for the environment `envOf ds img` of an assembled image.
-/
namespace Hex.IAm
open Hex.Isa (IOSt ld)
open Hex.Asm (Dir LabelKind)

structure Env where
  ds : List Dir
  addr : Nat → Nat
  isCode : Nat → Bool

structure Cfg where
  i : Nat
  a : Word
  b : Word
  mem : Mem

/-- Index of the LAST label directive (plain, FUNC or PROC) with the given name, counting from `k`. -/
def labelIdxFrom : List Dir → Nat → String → Option Nat
  | [], _, _ => none
  | d :: rest, k, name =>
    match labelIdxFrom rest (k + 1) name with
    | some j => some j
    | none =>
      match d with
      | .label _ n => if n = name then some k else none
      | _ => none

def labelIdx (ds : List Dir) (name : String) : Option Nat := labelIdxFrom ds 0 name

/-- A store that stays inside memory and outside the code. -/
def store (env : Env) (mem : Mem) (w : Word) (v : Word) : Option Mem :=
  if w.toNat < memWords ∧ env.isCode w.toNat = false then some (mem.write w.toNat v) else none

abbrev W (v : Int) : Word := BitVec.ofInt 32 v

/-- One step of the indexed machine. -/
inductive Step (env : Env) : Cfg → IOSt → Cfg → IOSt → Prop
  | label (c io k n) : env.ds[c.i]? = some (.label k n) → Step env c io { c with i := c.i + 1 } io
  | ldam (c io v x) : env.ds[c.i]? = some (.imm 0x0 v) → ld c.mem (W v) = some x →
      Step env c io { c with i := c.i + 1, a := x } io
  | ldbm (c io v x) : env.ds[c.i]? = some (.imm 0x1 v) → ld c.mem (W v) = some x →
      Step env c io { c with i := c.i + 1, b := x } io
  | stam (c io v m') : env.ds[c.i]? = some (.imm 0x2 v) → store env c.mem (W v) c.a = some m' →
      Step env c io { c with i := c.i + 1, mem := m' } io
  | ldac (c io v) : env.ds[c.i]? = some (.imm 0x3 v) → Step env c io { c with i := c.i + 1, a := W v } io
  | ldbc (c io v) : env.ds[c.i]? = some (.imm 0x4 v) → Step env c io { c with i := c.i + 1, b := W v } io
  | ldai (c io v x) : env.ds[c.i]? = some (.imm 0x6 v) → ld c.mem (c.a + W v) = some x →
      Step env c io { c with i := c.i + 1, a := x } io
  | ldbi (c io v x) : env.ds[c.i]? = some (.imm 0x7 v) → ld c.mem (c.b + W v) = some x →
      Step env c io { c with i := c.i + 1, b := x } io
  | stai (c io v m') : env.ds[c.i]? = some (.imm 0x8 v) → store env c.mem (c.b + W v) c.a = some m' →
      (c.b + W v).toNat ≠ 1 →     -- the stack pointer word is only ever written by `STAM 1`
      Step env c io { c with i := c.i + 1, mem := m' } io
  -- absolute references to data labels: the operand is the word address of the label
  | ldamL (c io l j x) : env.ds[c.i]? = some (.ref 0x0 l false) → labelIdx env.ds l = some j →
      env.addr j % 4 = 0 → ld c.mem (BitVec.ofNat 32 (env.addr j / 4)) = some x →
      Step env c io { c with i := c.i + 1, a := x } io
  | ldbmL (c io l j x) : env.ds[c.i]? = some (.ref 0x1 l false) → labelIdx env.ds l = some j →
      env.addr j % 4 = 0 → ld c.mem (BitVec.ofNat 32 (env.addr j / 4)) = some x →
      Step env c io { c with i := c.i + 1, b := x } io
  | stamL (c io l j m') : env.ds[c.i]? = some (.ref 0x2 l false) → labelIdx env.ds l = some j →
      env.addr j % 4 = 0 → store env c.mem (BitVec.ofNat 32 (env.addr j / 4)) c.a = some m' →
      Step env c io { c with i := c.i + 1, mem := m' } io
  | ldacL (c io l j) : env.ds[c.i]? = some (.ref 0x3 l false) → labelIdx env.ds l = some j →
      env.addr j % 4 = 0 →
      Step env c io { c with i := c.i + 1, a := BitVec.ofNat 32 (env.addr j / 4) } io
  -- pc-relative references to code labels
  | ldapL (c io l j) : env.ds[c.i]? = some (.ref 0x5 l true) → labelIdx env.ds l = some j →
      Step env c io { c with i := c.i + 1, a := BitVec.ofNat 32 (env.addr j) } io
  | br (c io l j) : env.ds[c.i]? = some (.ref 0x9 l true) → labelIdx env.ds l = some j →
      Step env c io { c with i := j } io
  | brz (c io l j) : env.ds[c.i]? = some (.ref 0xA l true) → labelIdx env.ds l = some j →
      Step env c io { c with i := if c.a = 0 then j else c.i + 1 } io
  | brn (c io l j) : env.ds[c.i]? = some (.ref 0xB l true) → labelIdx env.ds l = some j →
      Step env c io { c with i := if c.a.toInt < 0 then j else c.i + 1 } io
  -- operations
  | brb (c io k kind n) : env.ds[c.i]? = some (.opr 0) → env.ds[k]? = some (.label kind n) →
      env.addr k = c.b.toNat →     -- control returns to a label (the link label of a call)
      Step env c io { c with i := k } io
  | add (c io) : env.ds[c.i]? = some (.opr 1) → Step env c io { c with i := c.i + 1, a := c.a + c.b } io
  | sub (c io) : env.ds[c.i]? = some (.opr 2) → Step env c io { c with i := c.i + 1, a := c.a - c.b } io
  | svcPut (c io v s) : env.ds[c.i]? = some (.opr 3) → c.a = 1 →
      ld c.mem (c.mem.read 1 + 2) = some v → ld c.mem (c.mem.read 1 + 3) = some s →
      Step env c io { c with i := c.i + 1 } (Isa.simout io v s)
  | svcGet (c io s m') : env.ds[c.i]? = some (.opr 3) → c.a = 2 →
      ld c.mem (c.mem.read 1 + 2) = some s →
      store env c.mem (c.mem.read 1 + 1) (Isa.simin io s).1 = some m' →
      Step env c io { c with i := c.i + 1, mem := m' } (Isa.simin io s).2

/-- The program terminates: `OPR SVC` with areg = 0 delivers `mem[sp + 2]`. -/
inductive Exit (env : Env) : Cfg → IOSt → Word → Prop
  | svcExit (c io code) : env.ds[c.i]? = some (.opr 3) → c.a = 0 →
      ld c.mem (c.mem.read 1 + 2) = some code → Exit env c io code

/-- Reflexive-transitive closure. -/
inductive Steps (env : Env) : Cfg → IOSt → Cfg → IOSt → Prop
  | refl (c io) : Steps env c io c io
  | step (c io c1 io1 c2 io2) : Step env c io c1 io1 → Steps env c1 io1 c2 io2 → Steps env c io c2 io2

theorem Steps.trans {env : Env} {c io c1 io1 c2 io2} (h1 : Steps env c io c1 io1) (h2 : Steps env c1 io1 c2 io2) :
    Steps env c io c2 io2 := by
  induction h1 with
  | refl => exact h2
  | step c io ca ioa cb iob hs _ ih => exact Steps.step _ _ _ _ _ _ hs (ih h2)

theorem Steps.one {env : Env} {c io c1 io1} (h : Step env c io c1 io1) : Steps env c io c1 io1 :=
  Steps.step _ _ _ _ _ _ h (Steps.refl _ _)

/-! ### The environment of an assembled image -/

/-- Byte address of directive `i` under the final layout (the end offset past the last one). -/
def addrOf (fs : List Asm.Found) (endOff : Nat) (i : Nat) : Nat :=
  match fs[i]? with
  | some f => f.start
  | none => endOff

/-- Word `w` holds a byte of some instruction of `P`. -/
def isCodeWord (P : Am.Prog) (w : Nat) : Bool :=
  P.any fun e => decide (e.start / 4 ≤ w ∧ w ≤ (e.start + e.size - 1) / 4)

def envOf (ds : List Dir) (img : Asm.Image) : Env :=
  let fs := Asm.expected ds img.resolved.lens img.resolved.vals 0
  { ds := ds,
    addr := addrOf fs (Asm.layoutEnd ds img.resolved.lens 0),
    isCode := isCodeWord (Am.entries ds fs) }

end Hex.IAm
