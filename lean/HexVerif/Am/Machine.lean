import HexVerif.Isa.Spec
import HexVerif.Asm.Check
import HexVerif.Lemmas.AsmLayout
/-!
  The labelled abstract machine `Am` (DESIGN.md Appendix A): the semantics of a LAID-OUT
  directive list, between the compiler's output and the bytes.

  State: the architectural state of the ISA (`Isa.St`: pc a byte address, areg, breg, oreg,
  memory) and the I/O world.  One `Am` step executes the instruction DIRECTIVE that starts at
  `pc` with its full 32-bit operand - `InstrImm v` ↦ `v`; `InstrLabel L rel` ↦ `addr L − next pc`;
  `InstrLabel L abs` ↦ `addr L / 4`, where `addr` is the assembler's layout - by the ISA's own
  `dispatch`, i.e. exactly as the instruction proper would act once its prefix chain has built
  the operand.  A step after which some instruction of the program no longer decodes from memory
  (a store hit a code word) is a fault, and so is a pc that is not the start of an instruction.
-/
namespace Hex.Am
open Hex.Isa (St IOSt Outcome Undef)

/-- An instruction of the laid-out program: opcode, byte address, encoded size, full operand. -/
structure Entry where
  opc : Nat
  start : Nat
  size : Nat
  operand : Word
  deriving DecidableEq, Repr, Inhabited

abbrev Prog := List Entry

/-- `n` consecutive bytes of memory from `pc`, as the ISA fetches them. -/
def fetchList (mem : Mem) (pc : Word) : Nat → Option (List Byte)
  | 0 => some []
  | n + 1 =>
    match Isa.fetch mem pc, fetchList mem (pc + 1) n with
    | some b, some bs => some (b :: bs)
    | _, _ => none

/-- The instruction `e` is in memory: the `e.size` bytes at `e.start` are a prefix chain that
    delivers `e.operand` to an instruction with opcode `e.opc` (decoded by the ISA's rules). -/
def decodesAt (mem : Mem) (e : Entry) : Bool :=
  match fetchList mem (BitVec.ofNat 32 e.start) e.size with
  | some bs => Asm.decodeInstr bs == some (e.opc, e.operand, e.size, [])
  | none => false

/-- Every instruction of the program is intact in memory. -/
def loaded (P : Prog) (mem : Mem) : Bool := P.all (decodesAt mem)

def instrAt (P : Prog) (pc : Nat) : Option Entry := P.find? (fun e => e.start == pc)

inductive Fault where
  | noInstr        -- pc is not the start of an instruction directive
  | codeStore      -- the step overwrote an instruction
  deriving DecidableEq, Repr

/-- One step: the directive at `pc`, executed by `Isa.dispatch` with its full operand. -/
def step (P : Prog) (s : St) (io : IOSt) : Except Fault Outcome :=
  match instrAt P s.pc.toNat with
  | none => .error .noInstr
  | some e =>
    match Isa.dispatch { s with pc := s.pc + BitVec.ofNat 32 e.size, o := e.operand } io e.opc with
    | .running s' io' => if loaded P s'.mem then .ok (.running s' io') else .error .codeStore
    | out => .ok out

inductive RunResult where
  | exited (code : Word) (steps : Nat) (s : St) (io : IOSt)
  | undef (why : Undef) (steps : Nat)
  | fault (f : Fault) (steps : Nat)
  | outOfFuel (s : St) (io : IOSt)

/-- Run for at most `fuel` directives. -/
def run (P : Prog) (fuel : Nat) (s : St) (io : IOSt) (steps : Nat := 0) : RunResult :=
  match fuel with
  | 0 => .outOfFuel s io
  | fuel + 1 =>
    match step P s io with
    | .error f => .fault f steps
    | .ok (.running s' io') => run P fuel s' io' (steps + 1)
    | .ok (.exited c s' io') => .exited c (steps + 1) s' io'
    | .ok (.undef w) => .undef w steps

/-! ### The laid-out program of an assembled image -/

def isInstr : Asm.Dir → Bool
  | .imm _ _ | .ref _ _ _ | .opr _ => true
  | _ => false

def opcOf : Asm.Dir → Nat
  | .imm o _ => o
  | .ref o _ _ => o
  | .opr _ => 0xD
  | _ => 0

/-- Instruction entries from the directives and what the layout recorded for each. -/
def entries : List Asm.Dir → List Asm.Found → Prog
  | d :: ds, f :: fs =>
    if isInstr d then { opc := opcOf d, start := f.start, size := f.size, operand := f.operand } :: entries ds fs
    else entries ds fs
  | _, _ => []

/-- The `Am` program of a directive list under the assembler's final layout. -/
def ofImage (dirs : List Asm.Dir) (img : Asm.Image) : Prog :=
  entries dirs (Asm.expected dirs img.resolved.lens img.resolved.vals 0)

/-- The ISA start state with the image at word 0. -/
def boot (img : Asm.Image) : St := Isa.boot (wordsOfBytes img.bytes)

end Hex.Am
