import HexVerif.Rtl.Sem
/-
  Model of `hextb.cpp` `run()` (the repaired loop) at half-clock-period granularity, over the
  GENERATED RTL semantics (`Rtl.cycle`, `Rtl.resetEdge`, `Rtl.sysValid`, `Rtl.sysCall`) and the
  reference system-call shim `Rtl.refTb` (= hextb.cpp `handleSyscall` over `memory_q`).

      top->i_rst = 1; top->i_clk = 0; top->eval();
      while (...) {
        timeInc(1); i_clk = !i_clk;
        if (!i_clk) i_rst = (time() < RESET_END);            // RESET_END = 10
        eval();
        if (i_clk) cycle_count++;
        if (!i_clk && !i_rst && o_syscall_valid) { pending = o_syscall; }
        else if (i_clk && pending) { handleSyscall(pending); if (EXIT) break; }
      }

  `eval()` is given the semantics Verilator 5 implements for this design (every clocked block is
  `@(posedge i_clk or posedge i_rst)`): if `i_clk` or `i_rst` rose since the previous `eval()`
  the clocked bodies run once on the pre-edge registers with the current inputs (reset arm if
  `i_rst`, clocked arm otherwise), then the combinational outputs settle; the first `eval()`
  sees no edge.  This scheduling is an assumption (DESIGN §4), cross-checked by `./check C13`.
-/
namespace Hex.Tb
open Hex Hex.Rtl

/-- `RESET_END` of hextb.cpp. -/
def resetEnd : Nat := 10

/-- The loop state of `run()`. -/
structure TbSt where
  t : Nat                      -- contextp->time()
  clk : Bool
  rst : Bool
  r : RtlSt                    -- registers and memory of the Verilated design
  io : Isa.IOSt
  pending : Option (BitVec 2)  -- syscallPending / pendingSyscall
  cycles : Nat                 -- cycle_count
  serviced : Nat               -- number of system calls performed so far (ghost, for C13)

inductive Res where
  | running (s : TbSt)
  | exited (code : Word) (s : TbSt)

/-- The state `run()` has when it enters the loop, from power-on state `r₀`. -/
def start (r₀ : RtlSt) (io : Isa.IOSt) : TbSt :=
  { t := 0, clk := false, rst := true, r := r₀, io, pending := none, cycles := 0, serviced := 0 }

/-- One iteration of the `while` loop (one half period). -/
def halfStep (s : TbSt) : Res :=
  let t := s.t + 1
  let clk := !s.clk
  let rst := if !clk then decide (t < resetEnd) else s.rst
  -- eval(): a rising clock is the only possible event (i_rst never rises inside the loop)
  let r := if clk && !s.clk then (if rst then resetEdge s.r else cycle s.r) else s.r
  let cycles := if clk then s.cycles + 1 else s.cycles
  if !clk && !rst && sysValid r = 1#1 then
    .running { t, clk, rst, r, io := s.io, pending := some (sysCall r), cycles, serviced := s.serviced }
  else if clk then
    match s.pending with
    | some call =>
      match refTb call r.mem s.io with
      | .cont m io' =>
        .running { t, clk, rst, r := { r with u_memory__memory_q := m }, io := io', pending := none, cycles,
                   serviced := s.serviced + 1 }
      | .exit code io' =>
        .exited code { t, clk, rst, r, io := io', pending := none, cycles, serviced := s.serviced + 1 }
    | none => .running { t, clk, rst, r, io := s.io, pending := none, cycles, serviced := s.serviced }
  else .running { t, clk, rst, r, io := s.io, pending := s.pending, cycles, serviced := s.serviced }

/-- `n` half periods (stops at EXIT). -/
def steps : Nat → TbSt → Res
  | 0, s => .running s
  | n + 1, s =>
    match halfStep s with
    | .running s' => steps n s'
    | .exited c s' => .exited c s'

/-- `load()`: the image words are copied to the bottom of `memory_q`; everything else keeps its
    power-on value. (hextb copies `remainingFileSize` bytes, i.e. image and debug tables.) -/
def loadMem (m : BitVec 19 → Word) (words : List Word) : BitVec 19 → Word :=
  fun a => match words[a.toNat]? with
    | some w => w
    | none => m a

end Hex.Tb
