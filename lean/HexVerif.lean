-- This module serves as the root of the `HexVerif` library.
-- Import modules here that should be built as part of the library.
import HexVerif.Basic
