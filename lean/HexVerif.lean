-- Root of the `HexVerif` library: every model, lemma and property module.
import HexVerif.Basic
import HexVerif.Isa.Spec
import HexVerif.Sim.Model
import HexVerif.Lemmas.SimIsa
import HexVerif.Properties.C02
import HexVerif.Properties.C12
