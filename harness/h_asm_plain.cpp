// The hexasm harness built WITHOUT sanitizers (glibc malloc / MALLOC_PERTURB_) for C11.
#include "h_asm.cpp"
