// Correspondence harness for xcmp (C01, C07, C08): drives the REAL compiler and the REAL
// simulator from /repo in-process.  One case per input line, one observation line per case.
//
//   run <srchex> <stdinhex|-> <files|-> <maxcycles>
//        files = k=hex;k=hex  (contents of simin<k>)
//     -> xcmp::Driver::run(EMIT_BINARY) on the source, then hexsim::Processor (truncateInputs =
//        true) on the binary:
//        ok exit=<hex> out=<hex|-> in=<stdin bytes consumed> files=<-|k=hex;..> cycles=<n>
//        compile-error <exception class>
//        timeout out=<hex|-> in=<n> cycles=<n>          (cycle watchdog)
//        sim-throw <what>                               (hexsim raised: invalid instruction ...)
//   acc <srchex> <stdinhex|-> <files|-> <maxcycles>
//     -> the same run executed one instruction at a time through the HEX_VERIF friend hook with a
//        memory-access observer (C08):
//        acc <ok|timeout|sim-throw> exit=<hex> cycles=<n> image=<words> sp0=<hex> spmax=<hex> spend=<hex>
//            maxfetch=<hex> maxload=<hex> maxstore=<hex> oob=<count> codestore=<count:first addr>
//            lowstore=<count:first addr> (stores below the end of the image that hit a word that
//            is not a DATA word of the listing) data=<number of data words>
//
//   x <action> <srchex>          action = tokens|tree|treeopt|insts|lowered|optimised|asm|bin
//     -> one xcmp::Driver::run with that DriverAction (C09, C11):
//        ok out=<hex of the output stream|-> bin=<hex of the emitted file|->
//        diag <exception class> <location|no_location> image=<1 if a file was emitted, else 0>
//   seq <action> <srchex>,<srchex>,...
//     -> the same for several sources compiled one after the other in this process; results joined by ' ; '
//
// The whole loop runs on a thread with a 1 GiB stack so that sanitizer-inflated frames of the
// recursive-descent parser and visitors do not overflow where the shipped build would not.
#include <cstdio>
#include <cstdlib>
#include <cstring>
#include <iostream>
#include <sstream>
#include <string>
#include <vector>
#include <set>
#include <typeinfo>
#include <cxxabi.h>
#include <pthread.h>
#include <unistd.h>
#include <cerrno>

#include "hexasm.hpp"
#include "hexsim.hpp"
#include "xcmp.hpp"

struct HexVerifAccess {
  static uint32_t &pc(hexsim::Processor &p) { return p.pc; }
  static uint32_t &areg(hexsim::Processor &p) { return p.areg; }
  static uint32_t &breg(hexsim::Processor &p) { return p.breg; }
  static uint32_t &oreg(hexsim::Processor &p) { return p.oreg; }
  static std::array<uint32_t, 200000> &memory(hexsim::Processor &p) { return p.memory; }
  static bool &running(hexsim::Processor &p) { return p.running; }
  static size_t &cycles(hexsim::Processor &p) { return p.cycles; }
  static size_t &maxCycles(hexsim::Processor &p) { return p.maxCycles; }
};
using A = HexVerifAccess;

static std::vector<std::string> split(const std::string &s, char c) {
  std::vector<std::string> r; std::string cur;
  for (char ch : s) { if (ch == c) { r.push_back(cur); cur.clear(); } else cur += ch; }
  r.push_back(cur); return r;
}
static std::string unhex(const std::string &h) {
  std::string r; if (h == "-") return r;
  for (size_t i = 0; i + 1 < h.size(); i += 2) r += (char)strtoul(h.substr(i, 2).c_str(), nullptr, 16);
  return r;
}
static std::string tohex(const std::string &b) {
  if (b.empty()) return "-";
  static const char *d = "0123456789abcdef"; std::string r;
  for (unsigned char c : b) { r += d[c >> 4]; r += d[c & 15]; }
  return r;
}
static std::string readFile(const std::string &p, bool &exists) {
  FILE *f = fopen(p.c_str(), "rb"); exists = f != nullptr; std::string r;
  if (!f) return r; int c; while ((c = fgetc(f)) != EOF) r += (char)c; fclose(f); return r;
}
static void cleanDir() {
  for (int k = 0; k < 8; k++) {
    unlink(("simin" + std::to_string(k)).c_str());
    unlink(("simout" + std::to_string(k)).c_str());
  }
}
static std::string outFiles() {
  std::string r;
  for (int k = 0; k < 8; k++) {
    bool ex; std::string c = readFile("simout" + std::to_string(k), ex);
    if (ex) { if (!r.empty()) r += ";"; r += std::to_string(k) + "=" + tohex(c); }
  }
  return r.empty() ? "-" : r;
}
static std::string className(const std::exception &e) {
  int st = 0; char *n = abi::__cxa_demangle(typeid(e).name(), nullptr, nullptr, &st);
  std::string r = (st == 0 && n) ? n : typeid(e).name(); free(n);
  for (auto &c : r) if (c == ' ') c = '_';
  return r;
}
static std::string oneWord(std::string s) { for (auto &c : s) if (c == ' ' || c == '\n') c = '_'; return s; }

static void writeInputs(const std::string &files) {
  if (files != "-") for (auto &kv : split(files, ';')) {
    auto e = split(kv, '='); if (e.size() != 2) continue;
    FILE *fp = fopen(("simin" + e[0]).c_str(), "wb");
    std::string c = unhex(e[1]); fwrite(c.data(), 1, c.size(), fp); fclose(fp);
  }
}

/// Compile with the real driver. Returns "" on success, else the observation line.
// `errno` is process state the code under test can read (strtoul & co.): the harness's own libc calls must not change
// what the NEXT compilation finds there (C11: "whatever was processed earlier in the same process").
static int g_code_errno = 0;
struct ErrnoScope { ErrnoScope() { errno = g_code_errno; } ~ErrnoScope() { g_code_errno = errno; } };

static std::string compile(const std::string &src) {
  try {
    std::ostringstream sink;
    ErrnoScope es;
    xcmp::Driver driver(sink);
    driver.run(xcmp::DriverAction::EMIT_BINARY, src, false, "a.bin");
    return "";
  } catch (std::exception &e) {
    return "compile-error " + className(e);
  }
}

/// Word indices of the image that hold DATA directives (from the real assembler listing).
static bool dataWords(const std::string &src, std::set<uint32_t> &data) {
  try {
    std::ostringstream listing;
    xcmp::Driver driver(listing);
    driver.run(xcmp::DriverAction::EMIT_ASM, src, false);
    std::istringstream in(listing.str()); std::string line;
    while (std::getline(in, line)) {
      // "<offset hex> <text> (<size> bytes)"-style lines; take those whose text starts with DATA
      std::istringstream ls(line); std::string off, text;
      if (!(ls >> off >> text)) continue;
      if (text == "DATA") { data.insert((uint32_t)(strtoul(off.c_str(), nullptr, 16) / 4)); }
    }
    return true;
  } catch (std::exception &) { return false; }
}

static xcmp::DriverAction actionOf(const std::string &a) {
  if (a == "tokens") return xcmp::DriverAction::EMIT_TOKENS;
  if (a == "tree") return xcmp::DriverAction::EMIT_TREE;
  if (a == "treeopt") return xcmp::DriverAction::EMIT_OPTIMISED_TREE;
  if (a == "insts") return xcmp::DriverAction::EMIT_INTERMEDIATE_INSTS;
  if (a == "lowered") return xcmp::DriverAction::EMIT_LOWERED_INSTS;
  if (a == "optimised") return xcmp::DriverAction::EMIT_OPTIMISED_INSTS;
  if (a == "asm") return xcmp::DriverAction::EMIT_ASM;
  return xcmp::DriverAction::EMIT_BINARY;
}

/// One compilation with the given action; canonical observation.
static std::string compileAction(const std::string &action, const std::string &src) {
  unlink("x.bin");
  std::ostringstream out;
  try {
    {
      ErrnoScope es;
      xcmp::Driver driver(out);
      driver.run(actionOf(action), src, false, "x.bin");
    }
    bool ex; std::string bin = readFile("x.bin", ex);
    return "ok out=" + tohex(out.str()) + " bin=" + (ex ? tohex(bin) : std::string("-"));
  } catch (const hexutil::Error &e) {
    bool ex; readFile("x.bin", ex);
    std::string loc = e.hasLocation() ? e.getLocation().str() : std::string("no location");
    return "diag " + className(e) + " " + oneWord(loc) + " image=" + (ex ? "1" : "0");
  } catch (const std::exception &e) {
    bool ex; readFile("x.bin", ex);
    return "diag " + className(e) + " no_location image=" + (ex ? "1" : "0");
  }
}

static long consumed(std::istringstream &in, size_t total) {
  in.clear(); long pos = (long)in.tellg(); return pos < 0 ? (long)total : pos;
}

static void *loop(void *) {
  std::string line;
  while (std::getline(std::cin, line)) {
    if (line.empty()) continue;
    auto f = split(line, ' ');
    std::string res;
    // watchdog: a hang in the real code kills the process (SIGALRM); the runner reports `fault hang` and restarts
    alarm((f[0] == "run" || f[0] == "acc") ? 150 : 10);
    if ((f[0] == "run" || f[0] == "acc") && f.size() >= 5) {
      cleanDir(); unlink("a.bin");
      std::string src = unhex(f[1]), input = unhex(f[2]);
      size_t maxCycles = strtoull(f[4].c_str(), 0, 10);
      res = compile(src);
      if (res.empty()) {
        writeInputs(f[3]);
        std::istringstream in(input); std::ostringstream out;
        auto *p = new hexsim::Processor(in, out, f[0] == "run" ? maxCycles : 0);
        p->setTruncateInputs(true);
        try {
          p->load("a.bin");
          if (f[0] == "run") {
            int rc = p->run();
            char buf[64];
            bool timedOut = A::running(*p); size_t cyc = A::cycles(*p);
            delete p; p = nullptr;     // closes (flushes) the simout files
            if (timedOut) {
              res = "timeout out=" + tohex(out.str()) + " in=" + std::to_string(consumed(in, input.size())) +
                    " cycles=" + std::to_string(cyc);
            } else {
              snprintf(buf, sizeof buf, "ok exit=%x", (unsigned)rc);
              res = std::string(buf) + " out=" + tohex(out.str()) + " in=" + std::to_string(consumed(in, input.size())) +
                    " files=" + outFiles() + " cycles=" + std::to_string(cyc);
            }
          } else {
            // Access observer: decode the instruction about to execute from the current state.
            auto &m = A::memory(*p);
            std::set<uint32_t> data; bool haveData = dataWords(src, data);
            // image size in words: hexsim::load copies the file after its length word; recompute from file.
            bool ex; std::string bin = readFile("a.bin", ex);
            uint32_t imageWords = bin.size() >= 4 ? ((unsigned char)bin[0] | ((unsigned char)bin[1] << 8) |
                                  ((unsigned char)bin[2] << 16) | ((unsigned)(unsigned char)bin[3] << 24)) : 0;
            uint32_t sp0 = m[1], spmax = sp0;
            std::vector<bool> fetched(200000, false), stored(200000, false);
            uint64_t maxfetch = 0, maxload = 0, maxstore = 0; size_t oob = 0;
            std::string status = "ok"; int rc = 0; size_t steps = 0;
            auto note = [&](uint64_t a, int kind) {
              if (a >= 200000) { oob++; }
              if (kind == 0) { if (a > maxfetch) maxfetch = a; if (a < 200000) fetched[a] = true; }
              if (kind == 1) { if (a > maxload) maxload = a; }
              if (kind == 2) { if (a > maxstore) maxstore = a; if (a < 200000) stored[a] = true; }
            };
            bool abortRun = false;
            while (A::running(*p)) {
              if (steps >= maxCycles) { status = "timeout"; break; }
              uint32_t pc = A::pc(*p), a = A::areg(*p), b = A::breg(*p), o = A::oreg(*p);
              note(pc >> 2, 0);
              if ((pc >> 2) >= 200000) { status = "oob-fetch"; break; }
              uint32_t instr = (m[pc >> 2] >> ((pc & 3) << 3)) & 0xFF;
              uint32_t opr = o | (instr & 0xF);
              uint32_t sp = m[1];
              switch ((instr >> 4) & 0xF) {
                case 0x0: case 0x1: note(opr, 1); if (opr >= 200000) abortRun = true; break;
                case 0x2: note(opr, 2); if (opr >= 200000) abortRun = true; break;
                case 0x6: note((uint64_t)(uint32_t)(a + opr), 1); if ((uint32_t)(a + opr) >= 200000) abortRun = true; break;
                case 0x7: note((uint64_t)(uint32_t)(b + opr), 1); if ((uint32_t)(b + opr) >= 200000) abortRun = true; break;
                case 0x8: note((uint64_t)(uint32_t)(b + opr), 2); if ((uint32_t)(b + opr) >= 200000) abortRun = true; break;
                case 0xD:
                  if (opr == 3) {
                    note(1, 1);
                    if (a == 0) { note((uint64_t)sp + 2, 1); if ((uint64_t)sp + 2 >= 200000) abortRun = true; }
                    else if (a == 1) { note((uint64_t)sp + 2, 1); note((uint64_t)sp + 3, 1); if ((uint64_t)sp + 3 >= 200000) abortRun = true; }
                    else if (a == 2) { note((uint64_t)sp + 2, 1); note((uint64_t)sp + 1, 2); if ((uint64_t)sp + 2 >= 200000) abortRun = true; }
                  }
                  break;
                default: break;
              }
              if (abortRun) { status = "oob-access"; break; }   // do not execute an access outside the array
              A::cycles(*p) = 1; A::maxCycles(*p) = 1;   // exactly one iteration of Processor::run()
              rc = p->run(); steps++;
              if (m[1] > spmax) spmax = m[1];
            }
            size_t codestore = 0, lowstore = 0; uint32_t firstCode = 0, firstLow = 0;
            for (uint32_t i = 0; i < 200000; i++) if (stored[i]) {
              if (fetched[i]) { if (!codestore) firstCode = i; codestore++; }
              if (i <= imageWords && haveData && !data.count(i) && i != 1) { if (!lowstore) firstLow = i; lowstore++; }
            }
            char buf[400];
            snprintf(buf, sizeof buf,
                     "acc %s exit=%x cycles=%zu image=%u sp0=%x spmax=%x spend=%x maxfetch=%llx maxload=%llx maxstore=%llx oob=%zu codestore=%zu:%x lowstore=%zu:%x data=%zu",
                     status.c_str(), (unsigned)rc, steps, imageWords, sp0, spmax, m[1],
                     (unsigned long long)maxfetch, (unsigned long long)maxload, (unsigned long long)maxstore,
                     oob, codestore, firstCode, lowstore, firstLow, data.size());
            res = buf;
            res += " out=" + tohex(out.str());
          }
        } catch (std::exception &e) {
          res = std::string(f[0] == "acc" ? "acc " : "") + "sim-throw " + oneWord(e.what());
        }
        delete p;
      }
    } else if (f[0] == "x" && f.size() >= 3) {
      res = compileAction(f[1], unhex(f[2]));
    } else if (f[0] == "seq" && f.size() >= 3) {
      bool first = true;
      for (auto &hx : split(f[2], ',')) {
        if (!first) res += " ; ";
        first = false;
        res += compileAction(f[1], unhex(hx));
      }
    } else {
      res = "bad-op";
    }
    std::cout << res << "\n";
    std::cout.flush();
  }
  return nullptr;
}

int main(int argc, char **argv) {
  if (argc > 1) { if (chdir(argv[1]) != 0) { perror("chdir"); return 2; } }
  pthread_attr_t attr; pthread_attr_init(&attr);
  pthread_attr_setstacksize(&attr, (size_t)1 << 30);
  pthread_t t;
  if (pthread_create(&t, &attr, loop, nullptr) != 0) { perror("pthread_create"); return 2; }
  pthread_join(t, nullptr);
  return 0;
}
