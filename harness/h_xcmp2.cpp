// Correspondence harness for the Lean model of xcmp (runner/c01model.py): drives the REAL
// compiler from /repo in-process, once per driver action, and prints what each stage emitted.
//
//   input : <srchex>
//   output: I=<x> L=<x> O=<x> S=<x> B=<x>
//     I  xcmp::DriverAction::EMIT_INTERMEDIATE_INSTS   (--insts)            text
//     L  xcmp::DriverAction::EMIT_LOWERED_INSTS        (--insts-lowered)    text
//     O  xcmp::DriverAction::EMIT_OPTIMISED_INSTS      (--insts-optimised)  text
//     S  xcmp::DriverAction::EMIT_ASM                  (-S)                 text
//     B  xcmp::DriverAction::EMIT_BINARY                                    the file written
//   each <x> is the hex of the bytes emitted ("-" when empty) or "!<exception class>".
//
// Every action uses a fresh xcmp::Driver (code generation modifies the AST).  The loop runs on a
// thread with a 1 GiB stack so that sanitizer-inflated frames of the recursive-descent parser and
// visitors do not overflow where the shipped build would not.
#include <cstdio>
#include <cstdlib>
#include <cstring>
#include <iostream>
#include <sstream>
#include <string>
#include <vector>
#include <typeinfo>
#include <cxxabi.h>
#include <pthread.h>
#include <unistd.h>

#include "hexasm.hpp"
#include "xcmp.hpp"

static std::string unhex(const std::string &h) {
  std::string r; if (h == "-") return r;
  for (size_t i = 0; i + 1 < h.size(); i += 2) r += (char)strtoul(h.substr(i, 2).c_str(), nullptr, 16);
  return r;
}
static std::string tohex(const std::string &b) {
  if (b.empty()) return "-";
  static const char *d = "0123456789abcdef"; std::string r;
  for (unsigned char c : b) { r += d[c >> 4]; r += d[c & 15]; }
  return r;
}
static std::string className(const std::exception &e) {
  int st = 0; char *n = abi::__cxa_demangle(typeid(e).name(), nullptr, nullptr, &st);
  std::string r = (st == 0 && n) ? n : typeid(e).name(); free(n);
  for (auto &c : r) if (c == ' ') c = '_';
  return r;
}
static std::string readFile(const std::string &p) {
  FILE *f = fopen(p.c_str(), "rb"); std::string r;
  if (!f) return r; int c; while ((c = fgetc(f)) != EOF) r += (char)c; fclose(f); return r;
}

static std::string stage(xcmp::DriverAction action, const std::string &src, const std::string &binName) {
  try {
    std::ostringstream out;
    xcmp::Driver driver(out);
    driver.run(action, src, false, binName);
    if (action == xcmp::DriverAction::EMIT_BINARY) {
      std::string b = readFile(binName);
      unlink(binName.c_str());
      return tohex(b);
    }
    return tohex(out.str());
  } catch (std::exception &e) {
    return "!" + className(e);
  }
}

static std::string workdir;

static void *loop(void *) {
  std::string line;
  std::string binName = "m.bin";
  while (std::getline(std::cin, line)) {
    if (line.empty()) continue;
    alarm(60);   // watchdog (SIGALRM kills the process; the runner reports `fault hang`)
    std::string src = unhex(line);
    std::string r;
    r += "I=" + stage(xcmp::DriverAction::EMIT_INTERMEDIATE_INSTS, src, binName);
    r += " L=" + stage(xcmp::DriverAction::EMIT_LOWERED_INSTS, src, binName);
    r += " O=" + stage(xcmp::DriverAction::EMIT_OPTIMISED_INSTS, src, binName);
    r += " S=" + stage(xcmp::DriverAction::EMIT_ASM, src, binName);
    r += " B=" + stage(xcmp::DriverAction::EMIT_BINARY, src, binName);
    std::cout << r << "\n" << std::flush;
  }
  return nullptr;
}

int main(int argc, char **argv) {
  if (argc > 1) { if (chdir(argv[1]) != 0) { perror("chdir"); return 2; } }
  pthread_attr_t attr; pthread_attr_init(&attr);
  pthread_attr_setstacksize(&attr, (size_t)1 << 30);
  pthread_t t;
  if (pthread_create(&t, &attr, loop, nullptr) != 0) { perror("pthread_create"); return 2; }
  pthread_join(t, nullptr);
  return 0;
}
