// C04 thorough tier: enumerate a range of 32-bit operand values through the REAL
// InstrImm::getSize + CodeGen::emitProgramBin and judge the bytes with the ISA prefix rules.
// usage: h_asm_sweep <lo> <hi>    (values lo..hi-1 as LDAC; every 256th value also for the
// other eleven mnemonics)
#include <cstdio>
#include <cstdlib>
#include <sstream>
#include <cassert>
#include "hexasm.hpp"

static const hexasm::Token toks[12] = {
  hexasm::Token::LDAM, hexasm::Token::LDBM, hexasm::Token::STAM, hexasm::Token::LDAC, hexasm::Token::LDBC,
  hexasm::Token::LDAP, hexasm::Token::LDAI, hexasm::Token::LDBI, hexasm::Token::STAI, hexasm::Token::BR,
  hexasm::Token::BRZ, hexasm::Token::BRN };
static const char *names[12] = {"LDAM","LDBM","STAM","LDAC","LDBC","LDAP","LDAI","LDBI","STAI","BR","BRZ","BRN"};

static bool judge(const std::string &b, unsigned opc, uint32_t v) {
  uint32_t o = 0; size_t p = 0; int prefixes = 0;
  for (;;) {
    if (p >= b.size()) return false;
    unsigned char c = b[p++];
    o |= c & 0xF;
    unsigned k = c >> 4;
    if (k == 0xE) { o <<= 4; if (++prefixes > 8) return false; }
    else if (k == 0xF) { o = 0xFFFFFF00u | (o << 4); if (++prefixes > 8) return false; }
    else { if (k != opc || o != v) return false; break; }
  }
  if (b.size() % 4 != 0 || b.size() - p >= 4) return false;
  for (; p < b.size(); p++) if (b[p] != 0) return false;
  return true;
}

int main(int argc, char **argv) {
  unsigned long long lo = strtoull(argv[1], 0, 10), hi = strtoull(argv[2], 0, 10), n = 0;
  std::ostringstream out;
  for (unsigned long long x = lo; x < hi; x++) {
    uint32_t v = (uint32_t)x;
    for (int m = 0; m < 12; m++) {
      if (m != 3 && (x & 0xFF) != 0x5A) continue;
      std::vector<std::unique_ptr<hexasm::Directive>> program;
      program.push_back(std::make_unique<hexasm::InstrImm>(toks[m], (int)v));
      hexasm::CodeGen cg(program);
      out.str(""); out.clear();
      cg.emitProgramBin(out);
      std::string b = out.str();
      if (!judge(b, (unsigned)m, v)) {
        printf("FAIL %u %s ", v, names[m]);
        for (unsigned char c : b) printf("%02x", c);
        printf("\n");
      }
    }
    n++;
  }
  printf("checked %llu\n", n);
  return 0;
}
