// Correspondence harness for hexsim::Processor (C02, C12, C15).
// Reads one case per line on stdin, drives the REAL simulator code from /repo
// in-process, prints one canonical observation line per case.
//
//   step <pc> <a> <b> <o> <trunc> <mem> <stdin>
//        mem   = '-' or comma separated addr=val (hex words)
//        stdin = '-' or hex bytes
//     -> one iteration of Processor::run() from the planted state
//   run <maxCycles> <tracing> <trunc> <fuel> <fill> <filehex> <stdin> <files>
//        fill  = byte (hex) the Processor's storage is filled with before
//                placement-new (C12: dirty backing store)
//        files = '-' or k=hex;k=hex  (contents of simin<k>)
//     -> load() + run() of a whole image
#include <cstdio>
#include <cstdlib>
#include <cstring>
#include <iostream>
#include <sstream>
#include <string>
#include <vector>
#include <map>
#include <new>
#include <unistd.h>
#include <sys/stat.h>

#include "hexsim.hpp"

struct HexVerifAccess {
  static uint32_t &pc(hexsim::Processor &p) { return p.pc; }
  static uint32_t &areg(hexsim::Processor &p) { return p.areg; }
  static uint32_t &breg(hexsim::Processor &p) { return p.breg; }
  static uint32_t &oreg(hexsim::Processor &p) { return p.oreg; }
  static std::array<uint32_t, 200000> &memory(hexsim::Processor &p) { return p.memory; }
  static bool &running(hexsim::Processor &p) { return p.running; }
  static int &exitCode(hexsim::Processor &p) { return p.exitCode; }
  static size_t &cycles(hexsim::Processor &p) { return p.cycles; }
  static size_t &maxCycles(hexsim::Processor &p) { return p.maxCycles; }
  static size_t debugCount(hexsim::Processor &p) { return p.debugInfo.size(); }
  static std::vector<std::pair<std::string, unsigned>> &debugInfo(hexsim::Processor &p) { return p.debugInfo; }
};
using A = HexVerifAccess;

static std::vector<std::string> split(const std::string &s, char c) {
  std::vector<std::string> r; std::string cur;
  for (char ch : s) { if (ch == c) { r.push_back(cur); cur.clear(); } else cur += ch; }
  r.push_back(cur); return r;
}
static std::string unhex(const std::string &h) {
  std::string r; if (h == "-") return r;
  for (size_t i = 0; i + 1 < h.size(); i += 2) r += (char)strtoul(h.substr(i, 2).c_str(), nullptr, 16);
  return r;
}
static std::string tohex(const std::string &b) {
  if (b.empty()) return "-";
  static const char *d = "0123456789abcdef"; std::string r;
  for (unsigned char c : b) { r += d[c >> 4]; r += d[c & 15]; }
  return r;
}
static std::string readFile(const std::string &p, bool &exists) {
  FILE *f = fopen(p.c_str(), "rb"); exists = f != nullptr; std::string r;
  if (!f) return r; int c; while ((c = fgetc(f)) != EOF) r += (char)c; fclose(f); return r;
}

// Storage for the Processor object: allocated once, dirtied on request.
alignas(64) static unsigned char storage[sizeof(hexsim::Processor)];
static std::vector<uint32_t> shadow(200000);

static void cleanDir() {
  for (int k = 0; k < 8; k++) {
    unlink(("simin" + std::to_string(k)).c_str());
    unlink(("simout" + std::to_string(k)).c_str());
  }
}

static std::string memDiff(hexsim::Processor &p) {
  auto &m = A::memory(p); std::string r;
  for (size_t i = 0; i < 200000; i++) if (m[i] != shadow[i]) {
    char buf[40]; snprintf(buf, sizeof buf, "%zx=%x", i, m[i]);
    if (!r.empty()) r += ","; r += buf;
  }
  return r.empty() ? "-" : r;
}

static std::string outFiles() {
  std::string r;
  for (int k = 0; k < 8; k++) {
    bool ex; std::string c = readFile("simout" + std::to_string(k), ex);
    if (ex) { if (!r.empty()) r += ";"; r += std::to_string(k) + "=" + tohex(c); }
  }
  return r.empty() ? "-" : r;
}

static std::string throwKind(const std::string &w) {
  if (w.rfind("invalid OPR", 0) == 0) return "badOpr";
  if (w.rfind("invalid syscall", 0) == 0) return "badSvc";
  if (w.rfind("invalid instruction", 0) == 0) return "badOpcode";
  return "other:" + w;
}

int main(int argc, char **argv) {
  if (argc > 1) { if (chdir(argv[1]) != 0) { perror("chdir"); return 2; } }
  std::string line;
  while (std::getline(std::cin, line)) {
    if (line.empty()) continue;
    auto f = split(line, ' ');
    cleanDir();
    alarm(60);   // watchdog (SIGALRM kills the process; the runner reports `fault hang`)
    if (f[0] == "step" || f[0] == "steps") {
      size_t nsteps = 1;
      if (f[0] == "steps") { nsteps = strtoull(f[1].c_str(), 0, 10); f.erase(f.begin() + 1); }
      uint32_t pc = strtoul(f[1].c_str(), 0, 16), a = strtoul(f[2].c_str(), 0, 16),
               b = strtoul(f[3].c_str(), 0, 16), o = strtoul(f[4].c_str(), 0, 16);
      bool trunc = f[5] == "1";
      std::istringstream in(unhex(f[7])); std::ostringstream out;
      memset(storage, 0, sizeof storage);
      auto *p = new (storage) hexsim::Processor(in, out, 0);
      std::fill(shadow.begin(), shadow.end(), 0);
      auto &m = A::memory(*p);
      for (size_t i = 0; i < 200000; i++) m[i] = 0;
      if (f[6] != "-") for (auto &kv : split(f[6], ',')) {
        auto e = split(kv, '='); size_t ad = strtoul(e[0].c_str(), 0, 16); uint32_t v = strtoul(e[1].c_str(), 0, 16);
        if (ad < 200000) { m[ad] = v; shadow[ad] = v; }
      }
      if (f.size() > 8 && f[8] != "-") for (auto &kv : split(f[8], ';')) {
        auto e = split(kv, '='); FILE *fp = fopen(("simin" + e[0]).c_str(), "wb");
        std::string c = unhex(e[1]); fwrite(c.data(), 1, c.size(), fp); fclose(fp);
      }
      A::pc(*p) = pc; A::areg(*p) = a; A::breg(*p) = b; A::oreg(*p) = o;
      A::exitCode(*p) = 0;
      p->setTruncateInputs(trunc);
      A::cycles(*p) = 1; A::maxCycles(*p) = nsteps;   // exactly nsteps loop iterations (or until exit)
      std::string res;
      try {
        p->run();
        char buf[200];
        snprintf(buf, sizeof buf, "ok %s %x %x %x %x %x %zu", A::running(*p) ? "run" : "exit",
                 A::pc(*p), A::areg(*p), A::breg(*p), A::oreg(*p), (unsigned)A::exitCode(*p), A::cycles(*p));
        res = buf;
        res += " " + memDiff(*p) + " " + tohex(out.str()) + " " + std::to_string((long)in.tellg() < 0 ? (long)unhex(f[7]).size() : (long)in.tellg());
      } catch (std::exception &e) {
        res = "throw " + throwKind(e.what());
      }
      p->~Processor();
      res += " " + outFiles();
      std::cout << res << "\n";
    } else if (f[0] == "run") {
      size_t maxCycles = strtoull(f[1].c_str(), 0, 10); bool tracing = f[2] == "1", trunc = f[3] == "1";
      size_t fuel = strtoull(f[4].c_str(), 0, 10); unsigned fill = strtoul(f[5].c_str(), 0, 16);
      std::string file = unhex(f[6]);
      { FILE *fp = fopen("image.bin", "wb"); fwrite(file.data(), 1, file.size(), fp); fclose(fp); }
      if (f[8] != "-") for (auto &kv : split(f[8], ';')) {
        auto e = split(kv, '='); FILE *fp = fopen(("simin" + e[0]).c_str(), "wb");
        std::string c = unhex(e[1]); fwrite(c.data(), 1, c.size(), fp); fclose(fp);
      }
      std::istringstream in(unhex(f[7])); std::ostringstream out;
      memset(storage, fill, sizeof storage);
      bool watchdog = (maxCycles == 0);
      auto *p = new (storage) hexsim::Processor(in, out, watchdog ? fuel - 1 : maxCycles);
      p->setTracing(tracing); p->setTruncateInputs(trunc);
      std::string res;
      try {
        p->load("image.bin");
        std::fill(shadow.begin(), shadow.end(), 0);
        int rc = p->run();
        bool oof = watchdog && A::running(*p);
        char buf[200];
        snprintf(buf, sizeof buf, "%s %x %x %x %x %x %zu", oof ? "fuel" : "ret", (unsigned)rc,
                 A::pc(*p), A::areg(*p), A::breg(*p), A::oreg(*p), A::cycles(*p));
        res = buf;
        // memory digest (FNV-1a over all words)
        uint64_t h = 1469598103934665603ULL; auto &m = A::memory(*p);
        for (size_t i = 0; i < 200000; i++) { h ^= m[i]; h *= 1099511628211ULL; }
        snprintf(buf, sizeof buf, " %016llx", (unsigned long long)h); res += buf;
        long pos = (long)in.tellg(); if (pos < 0) pos = (long)unhex(f[7]).size();
        res += " " + tohex(out.str()) + " " + std::to_string(pos);
      } catch (std::exception &e) {
        res = "throw " + throwKind(e.what());
      }
      p->~Processor();
      res += " " + outFiles();
      std::cout << res << "\n";
    } else {
      std::cout << "bad-op\n";
    }
    std::cout.flush();
  }
  return 0;
}
