// Harness around the REAL hextb.cpp (C06, C13): its load() and run() are used unchanged.
//   h_tb real <args...>                 -> calls hextb's own main(argc, argv)   (seed route)
//   h_tb plant <spec> <file> [maxCycles] -> same set-up code as hextb's main, then plants a power-on
//        state before load()/run():  spec = pc=H,a=H,b=H,o=H,m<ADDR>=H,...  (hex; '-' for none)
// The design must be Verilated with --public-flat-rw so that registers can be planted.
#define main hextb_main
#include "hextb.cpp"
#undef main
#include <cstdlib>
#include <string>

static void plant(const std::unique_ptr<Vhex_pkg> &top, const std::string &spec) {
  if (spec == "-") return;
  size_t i = 0;
  while (i < spec.size()) {
    size_t j = spec.find(',', i); if (j == std::string::npos) j = spec.size();
    std::string kv = spec.substr(i, j - i); i = j + 1;
    size_t e = kv.find('='); std::string k = kv.substr(0, e); unsigned long v = strtoul(kv.substr(e + 1).c_str(), 0, 16);
    if (k == "pc") top->hex->u_processor->pc_q = v & 0x1FFFFF;
    else if (k == "a") top->hex->u_processor->areg_q = v;
    else if (k == "b") top->hex->u_processor->breg_q = v;
    else if (k == "o") top->hex->u_processor->oreg_q = v;
    else if (k[0] == 'm') { unsigned long ad = strtoul(k.c_str() + 1, 0, 16); if (ad < 524288) top->hex->u_memory->memory_q[ad] = v; }
  }
}

int main(int argc, const char **argv) {
  if (argc < 2) return 2;
  std::string mode = argv[1];
  if (mode == "real") return hextb_main(argc - 1, argv + 1);
  try {
    const char *spec = argv[2], *filename = argv[3];
    size_t maxCycles = argc > 4 ? std::stoull(argv[4]) : 0;
    // (copied from hextb.cpp main)
    Verilated::mkdir("logs");
    const std::unique_ptr<VerilatedContext> contextp{new VerilatedContext};
    contextp->debug(0);
    contextp->randReset(2);
    contextp->traceEverOn(true);
    contextp->commandArgs(argc, argv);
    const std::unique_ptr<Vhex_pkg> top{new Vhex_pkg{contextp.get(), "TOP"}};
    plant(top, spec);
    load(filename, top);
    return run(contextp, top, false, maxCycles);
  } catch (std::exception &e) {
    std::cerr << "Error: " << e.what() << "\n";
    return 1;
  }
}
