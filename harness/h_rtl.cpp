// Correspondence harness for the Verilated RTL (C03, C16).
// Built by runner/rtl_common.py with
//   verilator --cc --exe --build --public-flat-rw -fno-inline --top-module hex --prefix Vhex \
//             hex_pkg.sv hex.sv processor.{sv|v} memory.sv h_rtl.cpp
// from $HEX_REPO, once per design (processor.sv, verilog/processor.v, synth/processor.v).
//
// Line protocol (all numbers hex):
//   step <pc> <a> <b> <o> <mem>
//        mem = '-' or comma separated wordaddr=val (word addresses < 0x80000)
//     plants the four registers and the sparse memory (everything else zero), settles the
//     combinational logic with i_rst=0,i_clk=0, samples the interface, then applies ONE rising
//     clock edge and reads back.  Prints
//        pc a b o sv sc f dv we da dd mw
//     pc a b o : registers after the edge        sv sc : o_syscall_valid, o_syscall before the edge
//     f        : fetched byte (u_processor.instr) dv we da dd : data port valid/we/addr/data before the edge
//     mw       : '-' or addr=val,... for EVERY memory word that differs from what was planted
//   seq <n> <mem> [<pc>,<a>,<b>,<o>]      (optional: register values at power-on, before the reset)
//     reset (i_rst=1 with a rising clock edge, then i_rst=0), then n clocks from the planted
//     memory; prints `rst=<mw>` (words changed by the reset edge itself) and the n observations
//     `pc a b o sv sc mw` separated by '|', where mw lists the
//     words changed in that cycle.  No system call is serviced.
#include <cstdio>
#include <cstdlib>
#include <cstring>
#include <cstdint>
#include <iostream>
#include <memory>
#include <sstream>
#include <string>
#include <utility>
#include <vector>

#include <verilated.h>
#include "Vhex.h"
#include "Vhex__Syms.h"   // scopes by name; -fno-inline keeps one class per module for .sv and .v alike

double sc_time_stamp() { return 0; }

#define PROC(x) top->hex->vlSymsp->TOP__hex__u_processor.x
#define MEMQ top->hex->vlSymsp->TOP__hex__u_memory.memory_q
#define HEXM(x) top->hex->vlSymsp->TOP__hex.x

static const uint32_t DEPTH = 1u << 19;

static std::vector<std::string> split(const std::string &s, char c) {
  std::vector<std::string> r; std::string cur;
  for (char ch : s) { if (ch == c) { r.push_back(cur); cur.clear(); } else cur += ch; }
  r.push_back(cur); return r;
}
static uint32_t hx(const std::string &s) { return (uint32_t)strtoul(s.c_str(), nullptr, 16); }

static std::vector<std::pair<uint32_t, uint32_t>> parseMem(const std::string &s) {
  std::vector<std::pair<uint32_t, uint32_t>> r;
  if (s == "-" || s.empty()) return r;
  for (auto &kv : split(s, ',')) {
    auto p = kv.find('=');
    if (p == std::string::npos) continue;
    r.emplace_back(hx(kv.substr(0, p)) & (DEPTH - 1), hx(kv.substr(p + 1)));
  }
  return r;
}

int main(int argc, char **argv) {
  const std::unique_ptr<VerilatedContext> ctx{new VerilatedContext};
  ctx->randReset(0);
  ctx->commandArgs(argc, argv);
  const std::unique_ptr<Vhex> top{new Vhex{ctx.get(), "TOP"}};
  std::vector<uint32_t> shadow(DEPTH, 0);
  for (uint32_t i = 0; i < DEPTH; i++) MEMQ[i] = 0;
  top->i_rst = 0; top->i_clk = 0; top->eval();

  std::vector<uint32_t> dirty;   // every address planted or seen changed since the last clean-up
  auto diff = [&](std::string &out) {
    // every word that differs from the shadow copy; the shadow is brought up to date
    bool any = false; char buf[48];
    for (uint32_t i = 0; i < DEPTH; i++) {
      uint32_t v = MEMQ[i];
      if (v != shadow[i]) {
        snprintf(buf, sizeof buf, "%s%x=%x", any ? "," : "", i, v);
        out += buf; any = true; shadow[i] = v; dirty.push_back(i);
      }
    }
    if (!any) out += "-";
  };
  auto clean = [&]() {
    for (uint32_t a : dirty) { MEMQ[a] = 0; shadow[a] = 0; }
    dirty.clear();
  };
  auto plant = [&](const std::vector<std::pair<uint32_t, uint32_t>> &mem) {
    for (auto &kv : mem) { MEMQ[kv.first] = kv.second; shadow[kv.first] = kv.second; dirty.push_back(kv.first); }
  };

  std::string line;
  while (std::getline(std::cin, line)) {
    if (line.empty()) continue;
    auto f = split(line, ' ');
    if (f[0] == "step" && f.size() >= 6) {
      plant(parseMem(f[5]));
      top->i_rst = 0; top->i_clk = 0;
      PROC(pc_q) = hx(f[1]) & 0x1FFFFF; PROC(areg_q) = hx(f[2]); PROC(breg_q) = hx(f[3]); PROC(oreg_q) = hx(f[4]);
      top->eval();
      unsigned sv = top->o_syscall_valid, sc = top->o_syscall;
      unsigned fb = PROC(instr);
      unsigned dv = HEXM(req_d_valid), we = HEXM(req_d_we);
      unsigned da = HEXM(req_d_addr), dd = HEXM(req_d_data);
      top->i_clk = 1; top->eval();
      std::string out; char buf[200];
      snprintf(buf, sizeof buf, "%x %x %x %x %x %x %x %x %x %x %x ", (unsigned)PROC(pc_q), (unsigned)PROC(areg_q),
               (unsigned)PROC(breg_q), (unsigned)PROC(oreg_q), sv, sc, fb, dv, we, da, dd);
      out = buf;
      diff(out);
      top->i_clk = 0; top->eval();
      clean();   // back to the all-zero memory
      puts(out.c_str()); fflush(stdout);
    } else if (f[0] == "seq" && f.size() >= 3) {
      unsigned n = (unsigned)strtoul(f[1].c_str(), nullptr, 10);
      plant(parseMem(f[2]));
      // reset from all-zero registers: one rising clock edge with i_rst high, then release
      top->i_clk = 0; top->i_rst = 0;
      PROC(pc_q) = 0; PROC(areg_q) = 0; PROC(breg_q) = 0; PROC(oreg_q) = 0;
      if (f.size() >= 4) {   // power-on register values pc,a,b,o: reset has to wipe them
        auto pw = split(f[3], ',');
        if (pw.size() == 4) {
          PROC(pc_q) = hx(pw[0]) & 0x1FFFFF; PROC(areg_q) = hx(pw[1]); PROC(breg_q) = hx(pw[2]); PROC(oreg_q) = hx(pw[3]);
        }
      }
      top->eval();
      top->i_rst = 1; top->eval();
      top->i_clk = 1; top->eval();
      top->i_clk = 0; top->eval();
      top->i_rst = 0; top->eval();
      std::string out = "rst="; char buf[120];
      diff(out);           // a store during the reset edge (write enable not qualified by reset) shows here
      out += "|";
      for (unsigned k = 0; k < n; k++) {
        unsigned sv = top->o_syscall_valid, sc = top->o_syscall;
        top->i_clk = 1; top->eval();
        snprintf(buf, sizeof buf, "%s%x %x %x %x %x %x ", k ? "|" : "", (unsigned)PROC(pc_q), (unsigned)PROC(areg_q),
                 (unsigned)PROC(breg_q), (unsigned)PROC(oreg_q), sv, sc);
        out += buf;
        diff(out);
        top->i_clk = 0; top->eval();
      }
      puts(out.c_str()); fflush(stdout);
      clean();
    } else {
      puts("bad-op"); fflush(stdout);
    }
  }
  top->final();
  return 0;
}
