// Correspondence harness for hexasm (C04 C05 C10 C11 C15 C17): drives the REAL
// hexasm::Lexer/Parser/CodeGen from /repo in-process.
//   asm <hexsource>  -> ok <file bytes hex> <listing hex>   |  diag <Class> <location>
//   tok <hexsource>  -> tok <token text hex>
// Compiled with -DNDEBUG like the shipped RelWithDebInfo build (assert is compiled out).
#include <cstdio>
#include <cstdlib>
#include <cxxabi.h>
#include <fstream>
#include <iostream>
#include <sstream>
#include <string>
#include <typeinfo>
#include <unistd.h>
#include <cassert>
#include <cerrno>
#include "hexasm.hpp"

static std::string unhex(const std::string &h) {
  std::string r; if (h == "-") return r;
  for (size_t i = 0; i + 1 < h.size(); i += 2) r += (char)strtoul(h.substr(i, 2).c_str(), nullptr, 16);
  return r;
}
static std::string tohex(const std::string &b) {
  if (b.empty()) return "-";
  static const char *d = "0123456789abcdef"; std::string r;
  for (unsigned char c : b) { r += d[c >> 4]; r += d[c & 15]; }
  return r;
}
static std::string className(const std::exception &e) {
  int st = 0; char *n = abi::__cxa_demangle(typeid(e).name(), nullptr, nullptr, &st);
  std::string r = n ? n : typeid(e).name(); free(n);
  auto p = r.rfind("::"); return p == std::string::npos ? r : r.substr(p + 2);
}

// `errno` is process state the code under test can read (strtoul & co.): the harness's own libc calls (unlink of a file
// that is not there, stream opens) must not change what the NEXT assembly finds there.  The value the real code left is
// kept aside while the harness works and put back before the real code runs again.
static int g_code_errno = 0;
struct ErrnoScope { ErrnoScope() { errno = g_code_errno; } ~ErrnoScope() { g_code_errno = errno; } };

int main(int argc, char **argv) {
  if (argc > 1 && chdir(argv[1]) != 0) { perror("chdir"); return 2; }
  std::string line;
  while (std::getline(std::cin, line)) {
    if (line.empty()) continue;
    auto sp = line.find(' ');
    std::string cmd = line.substr(0, sp), src = unhex(sp == std::string::npos ? "-" : line.substr(sp + 1));
    std::string res;
    unlink("h_asm.out");
    alarm(10);   // watchdog: a hang in the real code kills the process (SIGALRM), reported as `fault hang`
    try {
      ErrnoScope es;
      hexasm::Lexer lexer;
      lexer.loadBuffer(src);
      if (cmd == "tok") {
        std::ostringstream out; lexer.emitTokens(out);
        res = "tok " + tohex(out.str());
      } else {
        hexasm::Parser parser(lexer);
        auto program = parser.parseProgram();
        hexasm::CodeGen codeGen(program);
        std::ostringstream text; codeGen.emitProgramText(text);
        { int keep = errno; unlink("h_asm.out"); errno = keep; }
        codeGen.emitBin("h_asm.out");
        int keep = errno;
        std::ifstream f("h_asm.out", std::ios::binary);
        std::stringstream bin; bin << f.rdbuf();
        errno = keep;
        res = "ok " + tohex(bin.str()) + " " + tohex(text.str());
      }
    } catch (const hexutil::Error &e) {
      res = "diag " + className(e) + " " + (e.hasLocation() ? e.getLocation().str() : std::string("no location"));
    } catch (const std::exception &e) {
      res = "diag " + className(e) + " no location";
    }
    if (res.rfind("diag", 0) == 0) {   // a diagnostic must come with no output: report what the real code left behind
      std::ifstream f("h_asm.out", std::ios::binary);
      if (f.good()) { std::stringstream bin; bin << f.rdbuf(); res += " LEFT=" + std::to_string(bin.str().size()); }
    }
    std::cout << res << "\n";
    std::cout.flush();
  }
  return 0;
}
