// The xcmp harness built WITHOUT sanitizers (glibc malloc, so that MALLOC_PERTURB_ fills freshly
// allocated and freed memory) - used by C11's perturbation matrix.  Same commands as h_xcmp.cpp.
#include "h_xcmp.cpp"
